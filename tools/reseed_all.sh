#!/bin/bash
# usage: reseed_all.sh [JOBS] [PROP ...]  - regression over ALL stored seeded changes, each in its own scratch worktree
# (VERIF_REPO), so /repo is never touched and several run in parallel.  Prints MISSED lines and a summary.
J=${1:-3}; shift
PROPS=${@:-C01 C02 C03 C04 C05 C06 C07 C08 C09 C10 C11 C12 C13 C14 C15 C16 C17 C18 C19 C20}
mkdir -p /tmp/rs
one() {
  D=$1; id=$(basename $D); P=${id%-*}
  W=/tmp/rs/$id
  rm -rf $W; git -C /repo worktree add -q --detach $W HEAD 2>/dev/null || { echo "$id: worktree failed"; return; }
  if git -C $W apply $D/patch.diff 2>/dev/null || git -C $W apply --3way $D/patch.diff 2>/dev/null; then
    (cd /verif && VERIF_REPO=$W timeout 2400 ./check $P --tier quick > /tmp/rs/$id.out 2>&1); rc=$?
    v=$(grep -c '^VIOLATION' /tmp/rs/$id.out)
    if [ $rc = 1 ] && [ $v -gt 0 ]; then echo "$id caught"; else echo "$id MISSED rc=$rc"; fi
  else echo "$id: patch does not apply"; fi
  git -C /repo worktree remove --force $W 2>/dev/null
}
export -f one
for P in $PROPS; do ls -d /verif/seeded/$P-*; done | xargs -P $J -I{} bash -c 'one {}' | tee /tmp/rs/summary.txt
git -C /repo worktree prune
echo "caught: $(grep -c caught /tmp/rs/summary.txt)  missed: $(grep -c MISSED /tmp/rs/summary.txt)"
