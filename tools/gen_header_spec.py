"""One-off generator of the literal tables in spec/OFXHeader.tla (code points of field
names and tokens, cp1252 table).  The output is committed; not used at run time."""
def cps(s): return "<<" + ", ".join(str(ord(c)) for c in s) + ">>"
names1 = ["OFXHEADER","DATA","VERSION","SECURITY","ENCODING","CHARSET","COMPRESSION","OLDFILEUID","NEWFILEUID"]
names2 = ["OFXHEADER","VERSION","SECURITY","OLDFILEUID","NEWFILEUID"]
print("Names1 == <<" + ", ".join(cps(n + ":") for n in names1) + ">>")
print("Names2 == <<" + ", ".join(cps(n + "=") for n in names2) + ">>")
for k, toks in [("DataToks", ["OFXSGML"]), ("SecurityToks", ["NONE", "TYPE1"]), ("EncodingToks", ["USASCII", "UNICODE", "UTF-8"]),
                ("CharsetToks", ["ISO-8859-1", "1252", "NONE"]), ("CompressionToks", ["NONE"])]:
    print("%s == {%s}" % (k, ", ".join(cps(t) for t in toks)))
print("T_1252 == " + cps("1252")); print("T_LATIN == " + cps("ISO-8859-1")); print("T_NONE == " + cps("NONE"))
print("XMLOPEN == " + cps("<?xml")); print("OFXOPEN == " + cps("<?OFX")); print("PIEND == " + cps("?>"))
tab = []
for b in range(0x80, 0xA0):
    try: tab.append(str(ord(bytes([b]).decode("cp1252"))))
    except UnicodeDecodeError: tab.append("-1")
print("CP1252Hi == <<" + ", ".join(tab) + ">>   \\* bytes 0x80..0x9F, -1 = undefined")
