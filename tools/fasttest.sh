#!/bin/bash
# Runs the repository's test-suite split over 12 processes (same tests, guard off).
# usage: fasttest.sh [repo]
R=${1:-/repo}
cd "$R" || exit 2
unset OFXTOOLS_VERIF
ls tests/test_*.py | awk '{print NR%12, $0}' > /tmp/ft.$$.lst
pids=()
for i in $(seq 0 11); do
  files=$(awk -v i=$i '$1==i{print $2}' /tmp/ft.$$.lst | tr '\n' ' ')
  [ -z "$files" ] && continue
  ( /venv/bin/python -m pytest -q -p no:cacheprovider $files 2>&1 | tail -1 > /tmp/ft.$$.$i ) &
done
wait
tot=0; bad=0
for i in $(seq 0 11); do
  [ -f /tmp/ft.$$.$i ] || continue
  l=$(cat /tmp/ft.$$.$i)
  p=$(echo "$l" | grep -oE '[0-9]+ passed' | grep -oE '[0-9]+')
  tot=$((tot + ${p:-0}))
  echo "$l" | grep -qE 'failed|error' && { bad=1; echo "$l"; }
done
rm -f /tmp/ft.$$.*
echo "passed=$tot bad=$bad"
[ "$tot" = 3592 ] && [ $bad = 0 ]
