"""Writes /verif/seeded/<id>/meta.json from the agent's meta and the recorded check result."""
import json, os, sys, glob
for d in sorted(glob.glob('/verif/seeded/*-*')):
    a = {}
    if os.path.exists(d + '/meta.agent.json'):
        try:
            a = json.load(open(d + '/meta.agent.json'))
        except Exception:
            a = {}
    res = open(d + '/result.txt').read().strip() if os.path.exists(d + '/result.txt') else ''
    sid = os.path.basename(d)
    prop = sid.split('-')[0]
    m = {"id": sid, "property": a.get("property", prop), "summary": a.get("summary", ""),
         "needs_to_manifest": a.get("needs", ""),
         "confirmed": "patch applied in a scratch worktree: full test-suite 3592 passed; demo.py fails with the patch and passes without (tools/seedtest.sh)",
         "checks_run": res,
         "caught": any(not r.endswith("violations=0") for r in res.split())}
    json.dump(m, open(d + '/meta.json', 'w'), indent=1)
    print(sid, m["caught"], res)
