#!/bin/bash
# usage: mkseed.sh <PROP>  - creates the scratch worktree and property text for a seeding agent
P=$1
mkdir -p /tmp/seed
git -C /repo worktree add -q --detach /tmp/seed/$P HEAD || exit 1
/venv/bin/python - "$P" <<'PY'
import json,sys
for l in open('/verif/properties.jsonl'):
    p=json.loads(l)
    if p['id']==sys.argv[1]:
        open('/tmp/seed/%s.property.txt'%p['id'],'w').write("%s: %s\n\n%s\n\nQuantified over: %s\n\nMechanisms in the code (files): %s\n" % (p['id'],p['title'],p['statement'],p['quantifier']['text'], ', '.join(p['anchors']['files'])))
PY
echo /tmp/seed/$P
