#!/bin/bash
# usage: reseed.sh <PROP> [N ...]    re-run the owning quick check against the stored seeded changes of a property
# (applies /verif/seeded/<PROP>-<N>/patch.diff to /repo, runs ./check <PROP>, reverts).  Prints caught / MISSED.
P=$1; shift
NS=${@:-$(ls -d /verif/seeded/$P-* | sed "s/.*-//" | sort -n)}
cd /repo && git status --porcelain | grep -q . && { echo "/repo dirty"; exit 2; }
mkdir -p /tmp/reseed
for N in $NS; do
  D=/verif/seeded/$P-$N
  git -C /repo apply $D/patch.diff 2>/dev/null || git -C /repo apply --3way $D/patch.diff || { echo "$P-$N patch does not apply"; continue; }
  (cd /verif && timeout 1800 ./check $P --tier quick > /tmp/reseed/$P.$N.out 2>&1); rc=$?
  v=$(grep -c '^VIOLATION' /tmp/reseed/$P.$N.out)
  git -C /repo restore --source=HEAD --staged --worktree .
  echo " $P:rc=$rc:violations=$v" > $D/result.txt
  if [ $rc = 1 ] && [ $v -gt 0 ]; then echo "$P-$N caught (violations=$v)"; else echo "$P-$N MISSED rc=$rc"; tail -3 /tmp/reseed/$P.$N.out | cut -c1-300; fi
done
rm -rf /verif/replays/$P
