#!/bin/bash
# usage: reseed.sh <PROP> [N ...]    re-run the owning quick check against stored seeded changes of a property, each in a
# scratch worktree (VERIF_REPO) - /repo itself is never touched.  Prints caught / MISSED and refreshes result.txt.
P=$1; shift
NS=${@:-$(ls -d /verif/seeded/$P-* | sed "s/.*-//" | sort -n)}
mkdir -p /tmp/rs
for N in $NS; do
  D=/verif/seeded/$P-$N; W=/tmp/rs/one-$P-$N
  rm -rf $W; git -C /repo worktree add -q --detach $W HEAD 2>/dev/null || { echo "$P-$N: worktree failed"; continue; }
  if git -C $W apply $D/patch.diff 2>/dev/null || git -C $W apply --3way $D/patch.diff 2>/dev/null; then
    (cd /verif && VERIF_REPO=$W timeout 2400 ./check $P --tier quick > /tmp/rs/$P-$N.out 2>&1); rc=$?
    v=$(grep -c '^VIOLATION' /tmp/rs/$P-$N.out)
    echo " $P:rc=$rc:violations=$v" > $D/result.txt
    if [ $rc = 1 ] && [ $v -gt 0 ]; then echo "$P-$N caught (violations=$v)"; else echo "$P-$N MISSED rc=$rc"; tail -2 /tmp/rs/$P-$N.out | cut -c1-300; fi
  else echo "$P-$N: patch does not apply"; fi
  git -C /repo worktree remove --force $W 2>/dev/null
done
git -C /repo worktree prune
