#!/bin/bash
# usage: seedtest.sh <PROP> <N> [check-prop ...]
# Confirms the seeded change /tmp/seed/<PROP>/out/<N> in its scratch worktree (tests pass, demo fails with
# the patch and passes without), stores it as /verif/seeded/<PROP>-<N>/, then runs the
# owning check(s) against that worktree (VERIF_REPO); /repo is not touched.
P=$1; N=$2; shift 2
CHECKS=${@:-$P}
W=/tmp/seed/$P
O=$W/out/$N
D=/verif/seeded/$P-$N
set -u
cd $W || exit 2
git checkout -q -- . ; git apply $O/patch.diff || { echo "patch does not apply in worktree"; exit 2; }
/verif/tools/fasttest.sh $W; T=$?
PYTHONPATH=$W /venv/bin/python $O/demo.py > /tmp/seed/demo.$P.$N.with 2>&1; DW=$?
git checkout -q -- .
PYTHONPATH=$W /venv/bin/python $O/demo.py > /tmp/seed/demo.$P.$N.without 2>&1; DO=$?
echo "tests_pass_rc=$T demo_with_patch_rc=$DW demo_without_rc=$DO"
if [ $T != 0 ] || [ $DW = 0 ] || [ $DO != 0 ]; then echo "NOT CONFIRMED"; exit 3; fi
mkdir -p $D; cp $O/patch.diff $O/demo.py $D/; cp $O/meta.json $D/meta.agent.json
# the owning check(s) run against the scratch worktree with the patch applied (VERIF_REPO): /repo itself is never touched
cd $W && git apply $O/patch.diff || { echo "patch does not re-apply"; exit 4; }
RES=""
for C in $CHECKS; do
  (cd /verif && VERIF_REPO=$W ./check $C --tier quick > /tmp/seed/check.$P.$N.$C.out 2>&1); rc=$?
  v=$(grep -c '^VIOLATION' /tmp/seed/check.$P.$N.$C.out)
  echo "check $C rc=$rc violations=$v"; grep -m2 -A1 '^VIOLATION' /tmp/seed/check.$P.$N.$C.out | cut -c1-400
  RES="$RES $C:rc=$rc:violations=$v"
done
cd $W && git checkout -q -- .
echo "$RES" > $D/result.txt
