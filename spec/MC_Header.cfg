SPECIFICATION Spec
INVARIANT LayoutParses
INVARIANT CorruptRefused
INVARIANT CorruptMostlyRefused
CONSTRAINT Emit
