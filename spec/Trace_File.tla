------------------------------ MODULE Trace_File ------------------------------
(***************************************************************************)
(* Code -> spec for whole files written by the library (C01, C11): the     *)
(* bytes returned by OFXClient.serialize are read by the specification     *)
(* (header, wire syntax, document machine) and must denote the original    *)
(* model instance; every data element must be lexically valid and clean on *)
(* the wire; the model the library reads back must equal the original.     *)
(*   e.wrote = FALSE: the library refused to write (allowed for values     *)
(*   that cannot be written, e.refusable)                                  *)
(***************************************************************************)
EXTENDS OFXFile, TraceBase

VARIABLE l

Judge(e) ==
  IF ~e.wrote THEN << <<"write-refused-writable-instance form=" \o e.form, e.refusable>> >>
  ELSE LET r == ReadFile(e.file) IN
       IF r.st # "ok" THEN << <<"written-file-readable form=" \o e.form \o " " \o r.why, FALSE>> >>
       ELSE << <<"written-wire-clean form=" \o e.form, r.clean>>,
               <<"written-lexically-valid form=" \o e.form, r.run.lexok>> >> \o
            (IF r.run.verdict = "unjudged" THEN <<>>
             ELSE << <<"written-header-kind form=" \o e.form, r.kind = e.kind /\ Num(r.f.version) = e.version>>,
                     <<"written-valid-document form=" \o e.form \o " " \o r.run.why, r.run.verdict = "accept">>,
                     <<"written-denotes-original form=" \o e.form, (r.run.verdict = "accept" /\ ~e.adversarial) => r.run.inst = e.orig>>,
                     <<"read-back-accepted form=" \o e.form \o " " \o e.back.exc, e.back.ok>>,
                     <<"read-back-equals-original form=" \o e.form, (e.back.ok /\ ~e.adversarial) => e.back.inst = e.orig>>,
                     <<"read-back-equals-written form=" \o e.form, (e.back.ok /\ r.run.verdict = "accept") => e.back.inst = r.run.inst>> >>)

Init == l = 1
Next == l <= Len(Log) /\ Report(Log[l].id, Judge(Log[l])) /\ l' = l + 1
Spec == Init /\ [][Next]_l
=============================================================================
