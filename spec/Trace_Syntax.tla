------------------------------ MODULE Trace_Syntax ------------------------------
(***************************************************************************)
(* Code -> spec for the body parser (C02, C08): TLC lexes and parses the   *)
(* very text given to TreeBuilder and judges the returned tree / error.    *)
(***************************************************************************)
EXTENDS OFXSyntax, TraceBase

VARIABLE l

Judge(e) ==
  LET toks == Lex(e.txt)
      r == Parse(toks) IN
  IF Open(toks) THEN <<>>
  ELSE IF r.ok
  THEN << <<"accepts-well-formed", e.out.ok>>,
          <<"faithful-tree", e.out.ok => e.out.tree = r.tree>>,
          <<"intended-tree", e.haswant => r.tree = e.want>> >>
  ELSE << <<"rejects-" \o r.why, ~e.out.ok>>,
          <<"generator-intended-valid", ~e.haswant>> >>

Init == l = 1
Next == l <= Len(Log) /\ Report(Log[l].id, Judge(Log[l])) /\ l' = l + 1
Spec == Init /\ [][Next]_l
=============================================================================
