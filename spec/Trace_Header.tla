------------------------------ MODULE Trace_Header ------------------------------
(***************************************************************************)
(* Code -> spec for header parsing and generation (C05, C12).              *)
(***************************************************************************)
EXTENDS OFXHeader, TraceBase

VARIABLE l
BodyStub == <<60, 79, 70, 88, 62, 60, 47, 79, 70, 88, 62>>    \* <OFX></OFX>

JudgeParse(e) ==
  LET r == RefParse(e.file) IN
  CASE r.st = "unjudged" -> <<>>
    [] r.st = "ok" -> << <<"parse-accepts", e.out.st = "ok">>,
                         <<"parse-kind", e.out.st = "ok" => e.out.kind = r.kind>>,
                         <<"parse-fields", (e.out.st = "ok" /\ e.out.kind = r.kind) => e.out.f = r.f>>,
                         <<"parse-body", e.out.st = "ok" => e.out.body = r.body>> >>
    [] r.st = "refuse" -> << <<"parse-refuses", e.out.st = "err">>,
                             <<"parse-refuses-with-header-error", e.out.st = "err" => e.out.exc = "OFXHeaderError">> >>

VersionOK(v) == v # <<>> /\ AllDigits(v) /\ Len(v) <= 3
\* left open: UIDs within the length limit holding characters outside [A-Za-z0-9_-]; white space around the version
UidOpen(u) == Len(u) \in 1..36 /\ ~ValidUid(u)
MakeOpen(e) == UidOpen(e.olduid) \/ UidOpen(e.newuid) \/ \E i \in 1..Len(e.version) : IsWS(e.version[i])
JudgeMake(e) ==
  IF MakeOpen(e) THEN <<>> ELSE
  IF VersionOK(e.version) /\ MakeOK(Num(e.version), e.security, e.olduid, e.newuid)
  THEN LET k == KindOf(Num(e.version))
           r == IF e.out.st = "ok" THEN RefParse(e.out.text \o <<13, 10>> \o BodyStub) ELSE Refuse("-") IN
       << <<"make-accepts", e.out.st = "ok">>,
          <<"make-kind", e.out.st = "ok" => e.out.kind = k>>,
          <<"make-flat-or-xml", e.out.st = "ok" => (StartsAt(e.out.text, 1, XMLOPEN) <=> k = 2)>>,
          <<"make-parses-back", e.out.st = "ok" => (r.st = "ok" /\ r.kind = k)>>,
          <<"make-fields-equal", (e.out.st = "ok" /\ r.st = "ok") =>
               (Num(r.f.version) = Num(e.version) /\ r.f.security = e.security
                /\ r.f.oldfileuid = e.olduid /\ r.f.newfileuid = e.newuid)>> >>
  ELSE IF VersionOK(e.version) /\ KindOf(Num(e.version)) = 1 /\ e.security \in SecurityToks /\ ValidUid(e.olduid) /\ ValidUid(e.newuid)
  THEN <<>>   \* cannot happen (MakeOK holds); kept for totality
  ELSE << <<"make-refuses", e.out.st = "err">>,
          <<"make-refuses-with-header-error", e.out.st = "err" => e.out.exc = "OFXHeaderError">> >>

JudgeCtor(e) ==
  LET ok == IF e.kind = 1 THEN Valid1(e.f) ELSE Valid2(e.f)
      \* a CONSTRUCTOR argument that is not plain digits but that Python's int() reads as a number ("1_02", "+102", " 100") is
      \* not header text: left open (the same value in a FILE is refused, see RefParse)
      lenient(v) == v # <<>> /\ ~AllDigits(v) /\ \A i \in 1..Len(v) : IsDigit(v[i]) \/ v[i] \in {95, 43, 45, 32, 9}
      open == (e.kind = 1 /\ VersionClass1(e.f.version) = "open") \/ Padded(e.f.ofxheader) \/ Padded(e.f.version)
              \/ lenient(e.f.version) \/ lenient(e.f.ofxheader) IN
  IF open THEN <<>>
  ELSE IF ok THEN << <<"ctor-accepts", e.out.st = "ok">> >>
  ELSE << <<"ctor-refuses", e.out.st = "err">>,
          <<"ctor-refuses-with-header-error", e.out.st = "err" => e.out.exc = "OFXHeaderError">> >>

Judge(e) == CASE e.op = "parse" -> JudgeParse(e) [] e.op = "make" -> JudgeMake(e) [] e.op = "ctor" -> JudgeCtor(e)

Init == l = 1
Next == l <= Len(Log) /\ Report(Log[l].id, Judge(Log[l])) /\ l' = l + 1
Spec == Init /\ [][Next]_l
=============================================================================
