------------------------------ MODULE Trace_ProfileCache ------------------------------
(***************************************************************************)
(* Code -> spec for the profile cache (C15), at the level of the PROPERTY  *)
(* (no write protocol here): the log holds scenarios - an "env" event,     *)
(* then one "io" event per I/O step a caller performed on the cache (with  *)
(* the abstract content of the cache file after that step) and one "ret"   *)
(* event per finished call.  The specification carries the cache content   *)
(* per key and judges every step and every result.                         *)
(* File content: [k |-> "absent" | "whole" | "corrupt", srv, dt].          *)
(***************************************************************************)
EXTENDS Integers, Sequences, TraceBase

VARIABLES l, cache
vars == <<l, cache>>
Absent == [k |-> "absent", srv |-> "", dt |-> 0]
Good == {"newer", "bumpnewer"}

\* (total: a file the history did not announce counts as absent before its first event and is reported)
CacheOf(k) == IF k \in DOMAIN cache THEN cache[k] ELSE Absent
JudgeIO(e) ==
  LET before == CacheOf(e.key) IN
  << <<"cache-file-announced-by-the-history " \o e.key, e.key \in DOMAIN cache>>, <<"cache-whole-or-absent after " \o e.step, e.file.k \in {"absent", "whole"}>>,
     <<"cache-never-vanishes after " \o e.step, before.k = "whole" => e.file.k # "absent">>,
     <<"cache-never-older after " \o e.step, (before.k = "whole" /\ e.file.k = "whole") => e.file.dt >= before.dt>>,
     <<"cache-belongs-to-server after " \o e.step, e.file.k = "whole" => e.file.srv = e.srv>> >>

JudgeRet(e) ==
  LET held == e.startfile IN
  << <<"asked-with-held-date", e.posted => e.asked = (IF held.k = "whole" THEN held.dt ELSE 0)>>,
     <<"good-answer-succeeds (" \o e.kind \o ", cache " \o held.k \o ")", (e.kind \in Good) => e.ok>>,
     <<"success-returns-what-the-server-sent", (e.ok /\ e.kind \in Good) => (e.prof.srv = e.srv /\ e.prof.dt = e.sentdt)>>,
     <<"uptodate-returns-held-profile", (e.kind = "uptodate" /\ held.k = "whole") => (e.ok /\ e.prof.srv = held.srv /\ e.prof.dt = held.dt)>>,
     <<"older-profile-refused", (e.kind = "older" /\ held.k = "whole" /\ held.dt > e.sentdt) => ~e.ok>>,
     <<"bad-answer-fails (" \o e.kind \o ")", (e.kind \in {"error", "garbage", "invalid", "neterr"}) => ~e.ok>>,
     <<"success-from-own-server", e.ok => e.prof.srv = e.srv>>,
     <<"failure-leaves-cache", (~e.ok /\ ~e.concurrent) => (e.unchanged /\ e.endfile = e.startfile)>>,
     <<"success-leaves-newest-in-cache", (e.ok /\ ~e.concurrent) => (e.endfile.k = "whole" /\ e.endfile.srv = e.srv /\ e.endfile.dt = e.prof.dt)>> >>

Init == l = 1 /\ cache = [none |-> Absent]
Next == /\ l <= Len(Log)
        /\ LET e == Log[l] IN
           CASE e.op = "env" -> cache' = [k \in {e.keys[i] : i \in 1..Len(e.keys)} |-> Absent]
             [] e.op = "io" -> Report(e.id, JudgeIO(e)) /\ cache' = [k \in DOMAIN cache \cup {e.key} |-> IF k = e.key THEN e.file ELSE cache[k]]
             [] e.op = "ret" -> Report(e.id, JudgeRet(e)) /\ UNCHANGED cache
             [] OTHER -> UNCHANGED cache
        /\ l' = l + 1
Spec == Init /\ [][Next]_vars
=============================================================================
