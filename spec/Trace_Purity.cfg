SPECIFICATION Spec
POSTCONDITION Consumed
