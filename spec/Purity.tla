------------------------------ MODULE Purity ------------------------------
(***************************************************************************)
(* C17: parsing, converting and writing are functions of their input.      *)
(*                                                                         *)
(* Part 1 - the one piece of shared mutable state on these paths, modelled *)
(* explicitly: DateTime string conversion re-registers, on the class-level *)
(* dispatch table of `unconvert`, the handler for datetime values (bound   *)
(* to whichever converter instance converted last).  The model shows that  *)
(* what a later write observes does not depend on that history as long as  *)
(* the handler only uses class-level data.                                 *)
(*                                                                         *)
(* Part 2 - the memo specification used to validate recorded executions:   *)
(* a call is [op, i, o, iafter] (digests); the first occurrence of (op, i) *)
(* binds its output, every later one - after any history, repeated, or in  *)
(* another thread - must give the same, and the input must be unchanged.   *)
(***************************************************************************)
EXTENDS Integers, Sequences, FiniteSets, TLC

CONSTANTS Instances, Values
VARIABLES reg,       \* dispatch table: type -> converter instance whose bound method handles it
          hist, last
pvars == <<reg, hist, last>>
Write(inst, v) == <<"text-of", v>>            \* the handler's result uses no per-instance state
PInit == reg = [t \in {"datetime"} |-> "class"] /\ hist = <<>> /\ last = <<"none">>
ConvertString(inst) == /\ reg' = [reg EXCEPT !["datetime"] = inst]      \* normalize_to_gmt re-registers
                       /\ hist' = Append(hist, <<"convert", inst>>) /\ UNCHANGED last
Unconvert(inst, v) == /\ last' = Write(reg["datetime"], v)              \* dispatch goes through the shared table
                      /\ hist' = Append(hist, <<"unconvert", inst, v>>) /\ UNCHANGED reg
PNext == /\ Len(hist) < 5
         /\ \/ \E i \in Instances : ConvertString(i)
            \/ \E i \in Instances : \E v \in Values : Unconvert(i, v)
PSpec == PInit /\ [][PNext]_pvars
\* whatever was converted before, writing v gives the text of v
HistoryIndependent == (hist # <<>> /\ hist[Len(hist)][1] = "unconvert") => last = <<"text-of", hist[Len(hist)][3]>>
=============================================================================
