------------------------------ MODULE OFXHeader ------------------------------
(***************************************************************************)
(* OFX file = header + body (OFX 2.2).  RefParse(bytes) is the reference   *)
(* reading of a whole file: header fields, and the body text - every       *)
(* character from the first '<' after the header to the last '>' - decoded *)
(* with the character set the header declares.  Bytes are 0..255.          *)
(* Results: [st |-> "ok", kind, f (fields), body] | [st |-> "refuse", why] *)
(*          | [st |-> "unjudged", why]  (left open by the properties)      *)
(***************************************************************************)
EXTENDS OFXText

Names1 == <<<<79, 70, 88, 72, 69, 65, 68, 69, 82, 58>>, <<68, 65, 84, 65, 58>>, <<86, 69, 82, 83, 73, 79, 78, 58>>, <<83, 69, 67, 85, 82, 73, 84, 89, 58>>, <<69, 78, 67, 79, 68, 73, 78, 71, 58>>, <<67, 72, 65, 82, 83, 69, 84, 58>>, <<67, 79, 77, 80, 82, 69, 83, 83, 73, 79, 78, 58>>, <<79, 76, 68, 70, 73, 76, 69, 85, 73, 68, 58>>, <<78, 69, 87, 70, 73, 76, 69, 85, 73, 68, 58>>>>
Names2 == <<<<79, 70, 88, 72, 69, 65, 68, 69, 82, 61>>, <<86, 69, 82, 83, 73, 79, 78, 61>>, <<83, 69, 67, 85, 82, 73, 84, 89, 61>>, <<79, 76, 68, 70, 73, 76, 69, 85, 73, 68, 61>>, <<78, 69, 87, 70, 73, 76, 69, 85, 73, 68, 61>>>>
DataToks == {<<79, 70, 88, 83, 71, 77, 76>>}
SecurityToks == {<<78, 79, 78, 69>>, <<84, 89, 80, 69, 49>>}
EncodingToks == {<<85, 83, 65, 83, 67, 73, 73>>, <<85, 78, 73, 67, 79, 68, 69>>, <<85, 84, 70, 45, 56>>}
CharsetToks == {<<73, 83, 79, 45, 56, 56, 53, 57, 45, 49>>, <<49, 50, 53, 50>>, <<78, 79, 78, 69>>}
CompressionToks == {<<78, 79, 78, 69>>}
T_1252 == <<49, 50, 53, 50>>
T_LATIN == <<73, 83, 79, 45, 56, 56, 53, 57, 45, 49>>
T_NONE == <<78, 79, 78, 69>>
XMLOPEN == <<60, 63, 120, 109, 108>>
OFXOPEN == <<60, 63, 79, 70, 88>>
PIEND == <<63, 62>>
CP1252Hi == <<8364, -1, 8218, 402, 8222, 8230, 8224, 8225, 710, 8240, 352, 8249, 338, -1, 381, -1, -1, 8216, 8217, 8220, 8221, 8226, 8211, 8212, 732, 8482, 353, 8250, 339, -1, 382, 376>>
V2Versions == {200, 201, 202, 203, 210, 211, 220}

Refuse(why) == [st |-> "refuse", why |-> why]
Unjudged(why) == [st |-> "unjudged", why |-> why]

Find(t, i, pat) == LET S == {j \in i..(Len(t) - Len(pat) + 1) : StartsAt(t, j, pat)} IN
                   IF S = {} THEN 0 ELSE CHOOSE j \in S : \A k \in S : j <= k
SkipWS(t, i) == LET S == {j \in i..Len(t) : ~IsWS(t[j])} IN
                IF S = {} THEN Len(t) + 1 ELSE CHOOSE j \in S : \A k \in S : j <= k
IsUidChar(c) == IsDigit(c) \/ IsUpper(c) \/ IsLower(c) \/ c = 95 \/ c = 45
UidRunEnd(t, i) == LET S == {j \in i..Len(t) : ~IsUidChar(t[j])} IN   \* first index after the run
                   IF S = {} THEN Len(t) + 1 ELSE CHOOSE j \in S : \A k \in S : j <= k
ValidUid(u) == Len(u) \in 1..36 /\ \A i \in 1..Len(u) : IsUidChar(u[i])

(***************************************************************************)
(* Character sets                                                          *)
(***************************************************************************)
DecodeLatin1(b) == b
DecodeCp1252(b) == [i \in 1..Len(b) |-> IF b[i] \in 128..159 THEN CP1252Hi[b[i] - 127] ELSE b[i]]
Cp1252OK(b) == \A i \in 1..Len(b) : b[i] \in 128..159 => CP1252Hi[b[i] - 127] # -1
IsCont(x) == x \in 128..191
\* iterative UTF-8 decoder: need = continuation bytes still expected, cur = code point being assembled
Utf8Step(st, x) ==
  IF ~st.ok THEN st
  ELSE IF st.need > 0 THEN
       (IF IsCont(x) THEN (IF st.need = 1 THEN [st EXCEPT !.acc = Append(@, st.cur * 64 + (x - 128)), !.need = 0, !.cur = 0]
                           ELSE [st EXCEPT !.cur = @ * 64 + (x - 128), !.need = @ - 1])
        ELSE [st EXCEPT !.ok = FALSE])
  ELSE IF x < 128 THEN [st EXCEPT !.acc = Append(@, x)]
  ELSE IF x \in 194..223 THEN [st EXCEPT !.need = 1, !.cur = x - 192]
  ELSE IF x \in 224..239 THEN [st EXCEPT !.need = 2, !.cur = x - 224]
  ELSE IF x \in 240..244 THEN [st EXCEPT !.need = 3, !.cur = x - 240]
  ELSE [st EXCEPT !.ok = FALSE]
DecodeUtf8(b) == IF \A i \in 1..Len(b) : b[i] < 128 THEN <<TRUE, b>>
                 ELSE LET st == FoldLeft(Utf8Step, [ok |-> TRUE, acc |-> <<>>, need |-> 0, cur |-> 0], b) IN
                      <<st.ok /\ st.need = 0, st.acc>>
\* [ok, text]
DecodeAs(charset, b) ==
  IF charset = T_LATIN THEN [ok |-> TRUE, text |-> b]
  ELSE IF charset = T_1252 THEN [ok |-> Cp1252OK(b), text |-> DecodeCp1252(b)]
  ELSE LET r == DecodeUtf8(b) IN [ok |-> r[1], text |-> r[2]]

\* UTF-8 encoding (for the model-level generator)
EncodeUtf8(s) == FoldLeft(LAMBDA acc, c :
    IF c < 128 THEN Append(acc, c)
    ELSE IF c < 2048 THEN acc \o <<192 + (c \div 64), 128 + (c % 64)>>
    ELSE IF c < 65536 THEN acc \o <<224 + (c \div 4096), 128 + ((c \div 64) % 64), 128 + (c % 64)>>
    ELSE acc \o <<240 + (c \div 262144), 128 + ((c \div 4096) % 64), 128 + ((c \div 64) % 64), 128 + (c % 64)>>, <<>>, s)

\* body region: from the first '<' at or after i to the last '>' ; only blanks may precede it
BodyBytes(b, i) ==
  LET lt == Find(b, i, <<60>>)
      gt == LastIndexOf(b, 62) IN
  IF lt = 0 \/ gt < lt THEN [ok |-> FALSE, bytes |-> <<>>]
  ELSE IF \E j \in i..(lt - 1) : ~IsWS(b[j]) THEN [ok |-> FALSE, bytes |-> <<>>]
  ELSE [ok |-> TRUE, bytes |-> SubSeq(b, lt, gt)]

(***************************************************************************)
(* Field domains                                                           *)
(***************************************************************************)
\* a zero-padded non-zero number ("0100"): the property does not say whether it names the number or is foreign text
Padded(v) == Len(v) > 1 /\ AllDigits(v) /\ v[1] = 48 /\ \E i \in 1..Len(v) : v[i] # 48
VersionClass1(v) ==    \* "ok" | "bad" | "open"
  IF v = <<>> \/ ~AllDigits(v) THEN "bad"
  ELSE IF Len(v) > 3 THEN "bad"
  ELSE IF Num(v) \in 100..199 THEN "ok" ELSE "open"
Valid1(f) ==
  /\ f.ofxheader = <<49, 48, 48>> /\ f.data \in DataToks /\ VersionClass1(f.version) = "ok"
  /\ f.security \in SecurityToks /\ f.encoding \in EncodingToks /\ f.charset \in CharsetToks
  /\ f.compression \in CompressionToks /\ ValidUid(f.oldfileuid) /\ ValidUid(f.newfileuid)
Valid2(f) ==
  /\ f.ofxheader = <<50, 48, 48>> /\ f.version # <<>> /\ AllDigits(f.version) /\ Len(f.version) <= 3 /\ Num(f.version) \in V2Versions
  /\ f.security \in SecurityToks /\ ValidUid(f.oldfileuid) /\ ValidUid(f.newfileuid)

(***************************************************************************)
(* Version 1: NAME:value fields in the fixed order, separated by line      *)
(* breaks, blanks or nothing                                               *)
(***************************************************************************)
RECURSIVE Fields1(_, _, _, _)
\* positions of the nine names found in order from cursor i; acc = sequence of <<namepos, valuestart>>
Fields1(t, i, k, acc) ==
  IF k > 9 THEN acc
  ELSE LET p == Find(t, i, Names1[k]) IN
       IF p = 0 THEN acc
       ELSE Fields1(t, p + Len(Names1[k]), k + 1, Append(acc, <<p, p + Len(Names1[k])>>))
RefParse1(b, p0) ==
  LET asciiEnd == LET S == {j \in 1..Len(b) : b[j] > 127} IN IF S = {} THEN Len(b) ELSE (CHOOSE j \in S : \A k \in S : j <= k) - 1
      t == SubSeq(b, 1, asciiEnd)     \* the header zone must be ASCII; the body may be anything
      F == Fields1(t, p0, 1, <<>>) IN
  IF Len(F) < 9 THEN
     \* a name is missing or out of order; COMPRESSION is optional in the library's reading - left open
     (IF Len(F) = 6 /\ Len(Fields1(t, F[6][2], 8, <<>>)) = 2 THEN Unjudged("COMPRESSION omitted")
      ELSE Refuse("field missing or out of order"))
  ELSE IF F[1][1] # p0 THEN Refuse("text before OFXHEADER")
  ELSE LET val(k) == Trim(SubSeq(t, F[k][2], F[k + 1][1] - 1))
           us == SkipWS(t, F[9][2])
           ue == UidRunEnd(t, us)
           f == [ofxheader |-> val(1), data |-> val(2), version |-> val(3), security |-> val(4),
                 encoding |-> val(5), charset |-> val(6), compression |-> val(7), oldfileuid |-> val(8),
                 newfileuid |-> SubSeq(t, us, ue - 1)] IN
       IF ue <= asciiEnd /\ t[ue] # 60 /\ ~IsWS(t[ue]) THEN Refuse("junk after NEWFILEUID")
       ELSE IF Padded(f.ofxheader) \/ Padded(f.version) THEN Unjudged("zero-padded number")
       ELSE IF VersionClass1(f.version) = "open" /\ Valid1([f EXCEPT !.version = <<49, 48, 50>>]) THEN Unjudged("v1 version outside 1xx")
       ELSE IF ~Valid1(f) THEN Refuse("field outside its domain")
       ELSE LET bb == BodyBytes(b, ue) IN
            IF ~bb.ok THEN Unjudged("no body")
            ELSE LET d == DecodeAs(f.charset, bb.bytes) IN
                 IF ~d.ok THEN Unjudged("body not encodable in the declared character set")
                 ELSE [st |-> "ok", kind |-> 1, f |-> f, body |-> d.text]

(***************************************************************************)
(* Version 2: <?xml ...?> then <?OFX NAME="value" ...?>                    *)
(***************************************************************************)
RECURSIVE Attrs2(_, _, _, _)
\* acc = sequence of values; returns [ok, vals, next]
Attrs2(t, i, k, acc) ==
  IF k > 5 THEN [ok |-> TRUE, vals |-> acc, next |-> i]
  ELSE LET j == SkipWS(t, i) IN
       IF j = i \/ ~StartsAt(t, j, Names2[k]) THEN [ok |-> FALSE, vals |-> acc, next |-> i]
       ELSE LET q == j + Len(Names2[k]) IN
            IF q > Len(t) \/ t[q] \notin {QUOT, APOS} THEN [ok |-> FALSE, vals |-> acc, next |-> i]
            ELSE LET e == Find(t, q + 1, <<t[q]>>) IN
                 IF e = 0 THEN [ok |-> FALSE, vals |-> acc, next |-> i]
                 ELSE Attrs2(t, e + 1, k + 1, Append(acc, SubSeq(t, q + 1, e - 1)))
RefParse2(b, p0) ==
  LET d == DecodeUtf8(b) IN
  IF ~d[1] THEN Unjudged("file is not UTF-8")
  ELSE LET t == d[2]
           q0 == SkipWS(t, 1)
           xe == Find(t, q0, PIEND) IN
       IF xe = 0 THEN Refuse("XML declaration not closed")
       ELSE LET o == SkipWS(t, xe + 2) IN
            IF ~StartsAt(t, o, OFXOPEN) THEN Refuse("no OFX declaration")
            ELSE LET a == Attrs2(t, o + 5, 1, <<>>) IN
                 IF ~a.ok THEN Refuse("OFX declaration attribute missing, misquoted or out of order")
                 ELSE LET c == SkipWS(t, a.next) IN
                      IF ~StartsAt(t, c, PIEND) THEN Refuse("OFX declaration not closed")
                      ELSE LET f == [ofxheader |-> a.vals[1], version |-> a.vals[2], security |-> a.vals[3],
                                     oldfileuid |-> a.vals[4], newfileuid |-> a.vals[5]] IN
                           IF Padded(f.ofxheader) \/ Padded(f.version) THEN Unjudged("zero-padded number")
                           ELSE IF ~Valid2(f) THEN Refuse("field outside its domain")
                           ELSE LET bb == BodyBytes(t, c + 2) IN
                                IF ~bb.ok THEN Unjudged("no body")
                                ELSE [st |-> "ok", kind |-> 2, f |-> f, body |-> bb.bytes]

RefParse(b) ==
  LET p0 == SkipWS(b, 1) IN
  IF p0 > Len(b) THEN Refuse("empty")
  ELSE IF Count(SubSeq(b, 1, p0 - 1), 10) >= 8 THEN Unjudged("more than 7 leading blank lines")   \* the library gives up by design
  ELSE IF StartsAt(b, p0, XMLOPEN) THEN RefParse2(b, p0) ELSE RefParse1(b, p0)

(***************************************************************************)
(* Generating headers (C12): the kind a version calls for                  *)
(***************************************************************************)
KindOf(version) == IF version \in 100..199 THEN 1 ELSE IF version \in 200..299 THEN 2 ELSE 0
MakeOK(version, security, olduid, newuid) ==
  /\ KindOf(version) # 0
  /\ (KindOf(version) = 2 => version \in V2Versions)
  /\ security \in SecurityToks /\ ValidUid(olduid) /\ ValidUid(newuid)
=============================================================================
