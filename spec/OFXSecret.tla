------------------------------ MODULE OFXSecret ------------------------------
(***************************************************************************)
(* Extension E02 - the life of the user's password across ofxget runs.     *)
(*                                                                         *)
(* State that survives a run: the system keyring (server -> password).     *)
(* One run = ofxget <request> <server> with its options; the steps of a    *)
(* run are the points where the password is obtained, travels, or is       *)
(* stored:                                                                 *)
(*   Begin    - options read; a dry run takes the dummy password of the    *)
(*              OFX spec, --password wins over everything else             *)
(*   KrGet    - keyring.get_password (only with a keyring, without         *)
(*              --nokeyring and without --savepass); a failing keyring is  *)
(*              tolerated and counts as "nothing stored"                   *)
(*   Prompt   - getpass, only if nothing was found                         *)
(*   Post     - one HTTP exchange: the legs of the run in order; without   *)
(*              --skipprofile every leg is preceded by an anonymous        *)
(*              profile exchange; "acctinfo" precedes the statement leg    *)
(*              under --all; a refused sign-on fails the run where the     *)
(*              account list is read (--all, or acctinfo --write)          *)
(*   AuthFail - no password at all: the authenticated request cannot be    *)
(*              composed and the run fails (silent)                        *)
(*   Print    - a dry run prints the request instead (silent here)         *)
(*   WriteCfg - after the last leg --write persists the settings, among     *)
(*              them --skipprofile (silent; the file itself is C18's)      *)
(*   KrSet    - keyring.set_password under --savepass, after all legs      *)
(*   SaveSkip - nothing to store / not allowed to (silent)                 *)
(*   End                                                                   *)
(* Every step is  st' = St<Step>(st, args)  guarded by  En<Step>(st, args),*)
(* so that the trace specification applies the very same step functions to *)
(* the events recorded from the real ofxget.                               *)
(***************************************************************************)
EXTENDS Integers, Sequences, FiniteSets, TLC

Dummy == "anonymous00000000000000000000000"
NoRun == [srv |-> "", kind |-> "", all |-> FALSE, dry |-> FALSE, cli |-> "", save |-> FALSE, nokr |-> FALSE,
          write |-> FALSE, skipprof |-> FALSE, kr |-> "ok"]
Kinds == {"acctinfo", "stmt", "stmtend", "tax1099"}

\* combinations the model covers: a dry run prints the REQUEST where a response is expected, so reading the account
\* list from it (--all, acctinfo --write) is outside this model (C19 owns account discovery)
Modelled(r) == /\ r.kind \in Kinds
               /\ (r.all => r.kind \in {"stmt", "stmtend"})
               /\ ~(r.dry /\ (r.all \/ (r.kind = "acctinfo" /\ r.write)))

AuthLegs(r) == IF r.all THEN <<"acctinfo", r.kind>> ELSE <<r.kind>>
RECURSIVE WithProfiles(_)
WithProfiles(ls) == IF ls = <<>> THEN <<>> ELSE <<"profile", Head(ls)>> \o WithProfiles(Tail(ls))
\* --skipprofile is a setting --write persists (C18): a later run of the same server skips the profile exchange too
EffSkip(s, r) == r.skipprof \/ s.skip[r.srv]
LegsOf(s, r) == IF r.dry \/ EffSkip(s, r) THEN AuthLegs(r) ELSE WithProfiles(AuthLegs(r))
Writes(r) == r.write /\ ~r.dry /\ r.kind # "tax1099"
UsesKeyring(r) == r.kr # "absent" /\ ~r.nokr /\ ~r.save
\* the account list of the response is read: a refused sign-on ends the run there
ReadsAccounts(r, leg) == leg = "acctinfo" /\ (r.all \/ r.write)

InitState(servers) ==
  [store |-> [s \in servers |-> ""], skip |-> [s \in servers |-> FALSE],
   cached |-> [s \in servers |-> FALSE],       \* a profile of the server is in the profile cache (C15 owns its content)
   cfg |-> [s \in servers |-> FALSE],          \* the user's configuration file has a section for the server (C18 owns it)
   run |-> NoRun, pc |-> "idle", used |-> "", legs |-> <<>>, prompts |-> 0, gets |-> 0,
   last |-> [leg |-> "", pw |-> ""]]

EnBegin(s, r) == s.pc = "idle" /\ Modelled(r) /\ r.srv \in DOMAIN s.store
StBegin(s, r) ==
  [s EXCEPT !.run = r, !.legs = LegsOf(s, r), !.prompts = 0, !.gets = 0, !.last = [leg |-> "", pw |-> ""],
            !.used = IF r.dry THEN Dummy ELSE r.cli,
            !.pc = IF r.dry \/ r.cli # "" THEN "legs" ELSE IF UsesKeyring(r) THEN "kr" ELSE "prompt"]

EnKrGet(s) == s.pc = "kr"
KrResult(s) == IF s.run.kr = "ok" THEN s.store[s.run.srv] ELSE ""
StKrGet(s) == [s EXCEPT !.gets = @ + 1, !.used = KrResult(s), !.pc = IF KrResult(s) # "" THEN "legs" ELSE "prompt"]

EnPrompt(s) == s.pc = "prompt"
StPrompt(s, typed) == [s EXCEPT !.used = typed, !.prompts = @ + 1, !.pc = "legs"]

LegPw(s) == IF Head(s.legs) = "profile" THEN Dummy ELSE s.used
\* an authenticated request cannot be composed without a password (SONRQ requires USERPASS): the run fails there,
\* after the anonymous profile exchange of that leg
EnAuthFail(s) == s.pc = "legs" /\ s.legs # <<>> /\ ~s.run.dry /\ Head(s.legs) # "profile" /\ s.used = ""
StAuthFail(s) == [s EXCEPT !.pc = "failed"]
EnPost(s) == s.pc = "legs" /\ s.legs # <<>> /\ ~s.run.dry /\ ~EnAuthFail(s)
StPost(s, accepted) ==
  [s EXCEPT !.last = [leg |-> Head(s.legs), pw |-> LegPw(s)], !.legs = Tail(s.legs),
            !.cached[s.run.srv] = @ \/ Head(s.legs) = "profile",
            !.pc = IF ReadsAccounts(s.run, Head(s.legs)) /\ ~accepted THEN "failed" ELSE "legs"]
EnPrint(s) == s.pc = "legs" /\ s.legs # <<>> /\ s.run.dry
StPrint(s) == [s EXCEPT !.last = [leg |-> Head(s.legs), pw |-> LegPw(s)], !.legs = Tail(s.legs)]

SaveOutcome(s) ==
  LET r == s.run IN
  IF ~r.save \/ r.dry \/ r.nokr \/ s.used = "" \/ r.kind = "tax1099" THEN "skip"    \* (the tax1099 request ignores --savepass)
  ELSE IF r.kr = "absent" THEN "error"          \* --savepass without python-keyring: the run ends with an error
  ELSE IF r.kr = "broken" THEN "raise" ELSE "set"
\* after the last leg the settings are written (--write; silent here, the file is C18's), then the password is stored
EnWriteCfg(s) == s.pc = "legs" /\ s.legs = <<>>
StWriteCfg(s) == [s EXCEPT !.pc = "save", !.skip[s.run.srv] = IF Writes(s.run) THEN EffSkip(s, s.run) ELSE @,
                                 !.cfg[s.run.srv] = @ \/ Writes(s.run)]
EnSave(s) == s.pc = "save"
EnKrSet(s) == EnSave(s) /\ SaveOutcome(s) \in {"set", "raise"}
StKrSet(s) == IF SaveOutcome(s) = "set" THEN [s EXCEPT !.store[s.run.srv] = s.used, !.pc = "done"] ELSE [s EXCEPT !.pc = "failed"]
EnSaveSkip(s) == EnSave(s) /\ SaveOutcome(s) \in {"skip", "error"}
StSaveSkip(s) == [s EXCEPT !.pc = IF SaveOutcome(s) = "skip" THEN "done" ELSE "failed"]

EnEnd(s) == s.pc \in {"done", "failed"}
StEnd(s) == [s EXCEPT !.pc = "idle", !.run = NoRun, !.legs = <<>>, !.used = "", !.last = [leg |-> "", pw |-> ""]]

\* silent steps (no observable call): applied until none is enabled - at most one per leg plus the save
SilentStep(s) == IF EnPrint(s) THEN StPrint(s) ELSE IF EnAuthFail(s) THEN StAuthFail(s) ELSE IF EnWriteCfg(s) THEN StWriteCfg(s)
                 ELSE IF EnSaveSkip(s) THEN StSaveSkip(s) ELSE s
Settle(s) == SilentStep(SilentStep(SilentStep(SilentStep(SilentStep(s)))))

(***************************************************************************)
(* What must hold of every state / step                                    *)
(***************************************************************************)
\* the password in use is the one the precedence dictates
PrecedenceOK(s) ==
  s.pc \in {"legs", "done"} =>
     /\ (s.run.dry => s.used = Dummy)
     /\ ((~s.run.dry /\ s.run.cli # "") => s.used = s.run.cli)
AtMostOnePrompt(s) == s.prompts <= 1 /\ s.gets <= 1
NoPromptWhenGiven(s) == (s.run.dry \/ s.run.cli # "") => (s.prompts = 0 /\ s.gets = 0)
KeyringOnlyWhenAllowed(s) == s.gets > 0 => UsesKeyring(s.run)
\* the real password never travels in the anonymous profile exchange
ProfileIsAnonymous(s) == s.last.leg = "profile" => s.last.pw = Dummy
AuthLegsCarryThePassword(s) == (s.last.leg # "" /\ s.last.leg # "profile") => (s.last.pw = s.used /\ s.last.pw # "")
StateOK(s) == PrecedenceOK(s) /\ AtMostOnePrompt(s) /\ NoPromptWhenGiven(s) /\ KeyringOnlyWhenAllowed(s)
              /\ ProfileIsAnonymous(s) /\ AuthLegsCarryThePassword(s)
\* the keyring changes only by a --savepass run that is neither dry nor --nokeyring, for its own server, to the
\* (non-empty) password that run used
\* nothing the user keeps - keyring, configuration file, profile cache - is touched by a dry run, and the cache only by
\* a profile exchange, the file only by --write
StoresOK(s, t) ==
  /\ (s.run.dry /\ s.pc # "idle") => (t.store = s.store /\ t.skip = s.skip /\ t.cached = s.cached /\ t.cfg = s.cfg)
  /\ t.cached # s.cached => (~s.run.dry /\ ~EffSkip(s, s.run) /\ s.legs # <<>> /\ Head(s.legs) = "profile")
  /\ (t.cfg # s.cfg \/ t.skip # s.skip) => Writes(s.run)
StepOK(s, t) ==
  /\ StoresOK(s, t)
  /\ s.store # t.store =>
     /\ s.run.save /\ ~s.run.dry /\ ~s.run.nokr /\ s.run.kr = "ok" /\ s.used # ""
     /\ t.store = [s.store EXCEPT ![s.run.srv] = s.used]
     /\ s.pc = "save"
=============================================================================
