------------------------------ MODULE MC_Scan ------------------------------
(***************************************************************************)
(* All servers over a reduced universe (2 v1 versions, 1 v2 version): the  *)
(* reference report satisfies FamilyOK/BestOK, and the proposal is a       *)
(* combination that worked whenever the documented assumption holds.       *)
(***************************************************************************)
EXTENDS OFXScan
Universe == {[v |-> v, p |-> p, u |-> u] : v \in {102, 160}, p \in BOOLEAN, u \in BOOLEAN} \cup
            {[v |-> 203, p |-> p, u |-> FALSE] : p \in BOOLEAN}
VARIABLE works
Init == works \in SUBSET Universe
Next == UNCHANGED works
Spec == Init /\ [][Next]_works
SeqOfSet(S, lt(_, _)) == CHOOSE s \in [1..Cardinality(S) -> S] : (\A i, j \in 1..Cardinality(S) : i < j => lt(s[i], s[j]))
FLt(a, b) == (IF a.p THEN 2 ELSE 0) + (IF a.u THEN 1 ELSE 0) < (IF b.p THEN 2 ELSE 0) + (IF b.u THEN 1 ELSE 0)
RefFamily(fam) == [versions |-> IF Working(works, fam) = {} THEN <<>> ELSE SeqOfSet(Working(works, fam), LAMBDA a, b : a < b),
                   formats |-> IF Working(works, fam) = {} THEN <<>>
                               ELSE SeqOfSet(CHOOSE F \in MaxFormats(works, fam) : TRUE, FLt)]
RefBest == LET res == IF RefFamily(V2).versions # <<>> THEN RefFamily(V2) ELSE RefFamily(V1) IN
           IF res.versions = <<>> THEN [none |-> TRUE, version |-> 0, p |-> FALSE, u |-> FALSE]
           ELSE LET f == CHOOSE x \in {res.formats[i] : i \in 1..Len(res.formats)} :
                              \A y \in {res.formats[i] : i \in 1..Len(res.formats)} : Flags(x) <= Flags(y) IN
                [none |-> FALSE, version |-> res.versions[Len(res.versions)], p |-> f.p, u |-> f.u]
ReferenceIsOK == FamilyOK(works, V1, RefFamily(V1)) /\ FamilyOK(works, V2, RefFamily(V2)) /\ BestOK(works, RefFamily(V1), RefFamily(V2), RefBest)
ProposalWorkedUnderAssumption ==
  (Uniform(works, V1) /\ Uniform(works, V2) /\ ~RefBest.none) => [v |-> RefBest.version, p |-> RefBest.p, u |-> RefBest.u] \in works
\* without the assumption the proposal may be a combination that never worked (expected to be violated)
ProposalAlwaysWorked == ~RefBest.none => [v |-> RefBest.version, p |-> RefBest.p, u |-> RefBest.u] \in works
=============================================================================
