SPECIFICATION Spec
POSTCONDITION Consumed
