------------------------------ MODULE OFXFile ------------------------------
(***************************************************************************)
(* Composition of the three layers: a whole OFX file (bytes) is read by    *)
(* the reference header reading (OFXHeader), the reference lexer and tree  *)
(* builder (OFXSyntax) and the schema-driven document machine              *)
(* (OFXAggregate) into a model instance.  Used to judge what the library   *)
(* writes (C01, C06, C11) independently of how the library reads.          *)
(***************************************************************************)
EXTENDS OFXHeader, OFXSyntax, OFXAggregate

TagStr(t) == IF t \in DOMAIN TagTable THEN TagTable[t] ELSE "?unknown"
IsVendorTag(t) == \E i \in 1..Len(t) : t[i] = 46
RECURSIVE DocOfTree(_)
DocOfTree(t) ==
  IF t[2] # <<>> THEN <<[e |-> "leaf", tag |-> TagStr(t[1]), vendor |-> IsVendorTag(t[1]), text |-> t[2]]>>
  ELSE <<[e |-> "open", tag |-> TagStr(t[1]), vendor |-> IsVendorTag(t[1]), text |-> <<>>]>> \o
       FoldLeft(LAMBDA acc, k : acc \o DocOfTree(k), <<>>, t[3]) \o <<CloseTok>>

\* all character data tokens of a body are clean on the wire (no raw '<', every '&' starts an entity)
WireDataClean(toks) == \A i \in 1..Len(toks) : toks[i].k = "D" => WireClean(toks[i].v)

\* [st |-> "ok", header, tree, run]  |  [st |-> "bad", why]
ReadFile(bytes) ==
  LET h == RefParse(bytes) IN
  IF h.st # "ok" THEN [st |-> "bad", why |-> "header: " \o h.why]
  ELSE LET toks == Lex(h.body)
           p == Parse(toks) IN
       IF ~p.ok THEN [st |-> "bad", why |-> "body: " \o p.why]
       ELSE [st |-> "ok", kind |-> h.kind, f |-> h.f, clean |-> WireDataClean(toks), tree |-> p.tree,
             run |-> RunDoc(DocOfTree(p.tree))]
=============================================================================
