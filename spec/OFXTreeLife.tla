------------------------------ MODULE OFXTreeLife ------------------------------
(***************************************************************************)
(* Extension E04 - the life of one OFXTree object (ofxtools/Parser.py):    *)
(* what it holds after any sequence of parse() / convert() calls.          *)
(*                                                                         *)
(* Documents: "a", "b" (valid, different headers and bodies), "badhdr"     *)
(* (header refused), "badbody" (valid header, body not well formed).       *)
(* Sources: a file name (str or Path), a binary file object, a BytesIO, a  *)
(* file object opened in text mode.                                        *)
(*   st.hdr  - the document whose header the tree holds ("" = none)        *)
(*   st.root - the document whose element tree it holds ("" = none)        *)
(* Step functions (shared with the trace specification):                   *)
(*   parse:   a text-mode source and a refused header leave the tree as it *)
(*            was; a malformed BODY is noticed only after the new header   *)
(*            has been stored, so the tree then holds the new header next  *)
(*            to the old root (named deviation, see HeaderRootAgree)       *)
(*   convert: needs a root                                                 *)
(***************************************************************************)
EXTENDS Integers, Sequences, TLC

Docs == {"a", "b", "badhdr", "badbody"}
Valid == {"a", "b"}
Sources == {"path", "pathobj", "binfile", "bytesio", "textfile"}
Empty == [hdr |-> "", root |-> ""]

ParseOutcome(kind, doc) ==
  IF kind = "textfile" THEN "ValueError"
  ELSE IF doc = "badhdr" THEN "OFXHeaderError"
  ELSE IF doc = "badbody" THEN "ParseError"
  ELSE "ok"
StParse(s, kind, doc) ==
  CASE ParseOutcome(kind, doc) = "ok" -> [hdr |-> doc, root |-> doc]
    [] ParseOutcome(kind, doc) = "ParseError" -> [s EXCEPT !.hdr = doc]
    [] OTHER -> s
ConvertOutcome(s) == IF s.root = "" THEN "ValueError" ELSE "ok"
\* which document's model convert() returns
ConvertResult(s) == s.root
\* a source the caller opened stays open and is the caller's to close; a source parse() opened itself is closed again
CallerFileStaysOpen(kind) == kind \in {"binfile", "bytesio", "textfile"}

\* OBSERVATION (expected to be violated): header and root always belong to the same document
HeaderRootAgree(s) == s.hdr = s.root
\* what always holds
RootIsValidDoc(s) == s.root \in Valid \cup {""}
NoRootWithoutHeader(s) == s.root # "" => s.hdr # ""
=============================================================================
