SPECIFICATION Spec
POSTCONDITION Consumed
