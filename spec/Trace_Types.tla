------------------------------ MODULE Trace_Types ------------------------------
(***************************************************************************)
(* Code -> spec for the element data types (C03 values, C09, C10, C11).    *)
(* Every event is one call of Element.convert / Element.unconvert on the   *)
(* real code with its projected outcome; TLC recomputes the outcome from   *)
(* OFXTypes.                                                               *)
(***************************************************************************)
EXTENDS OFXTypes, TraceBase

VARIABLE l

TyOf(e) == [k |-> e.ty.k, len |-> e.ty.len, scale |-> e.ty.scale, valid |-> Range(e.ty.valid), req |-> e.ty.req]

OverLong(ty, s) == ty.k = "nag" /\ ty.len # -1 /\ Len(s) > ty.len

JudgeConv(e) ==
  LET ty == TyOf(e) r == Conv(ty, e.txt) IN
  IF r = UnjudgedV THEN <<>>
  ELSE << <<"conv-value expected " \o ToString(r.t), e.out = r>>,
          <<"conv-nag-warn", (r.t = "str" /\ OverLong(ty, r.s)) => e.warn>> >>

JudgeUnconv(e) ==
  LET ty == TyOf(e) S == Unconv(ty, e.v) IN
  << <<"unconv-refuse", (S = {}) => (e.out.t = "refuse")>>,
     <<"unconv-text", (S # {}) => (e.out \in S)>>,
     <<"unconv-lexical", (e.out.t = "text") => Lexical(ty, e.out.s)>>,
     <<"unconv-nag-warn", (e.v.t = "str" /\ OverLong(ty, e.v.s)) => e.warn>> >>

\* write then read on the real code
JudgeRT(e) ==
  LET ty == TyOf(e) IN
  << <<"roundtrip", IF e.v.t = "dec" /\ e.v.exp > 0 THEN e.back.t = "dec" /\ DecSameNumber(e.back, e.v)
                    ELSE IF e.v.t \in {"dtv", "timev"}
                    THEN e.back.t \in {"dt", "time"} /\
                         LET dd == (IF e.v.t = "dtv" THEN (e.back.day - e.v.day) * 86400000 ELSE 0) + (e.back.ms - e.v.ms)
                             w == IF e.v.t = "timev" THEN (IF dd > 43200000 THEN dd - 86400000 ELSE IF dd < -43200000 THEN dd + 86400000 ELSE dd) ELSE dd
                             us == w * 1000 - e.v.us IN w \in {-1, 0, 1} /\ us <= 500 /\ us >= -500
                    ELSE e.back = e.v>> >>

\* read, write, read, write on the real code: canonical fixed point
JudgeFix(e) ==
  LET ty == TyOf(e) v == Conv(ty, e.txt) IN
  IF v.t \in {"unjudged", "reject", "none"} THEN <<>>
  ELSE << <<"canon-reads-same", Conv(ty, e.t2) = v>>,
          <<"canon-fixed-point", e.t3 = e.t2>>,
          <<"canon-lexical", Lexical(ty, e.t2)>> >>

Judge(e) == CASE e.op = "conv" -> JudgeConv(e)
              [] e.op = "unconv" -> JudgeUnconv(e)
              [] e.op = "rt" -> JudgeRT(e)
              [] e.op = "fix" -> JudgeFix(e)

Init == l = 1
Next == l <= Len(Log) /\ Report(Log[l].id, Judge(Log[l])) /\ l' = l + 1
Spec == Init /\ [][Next]_l
=============================================================================
