SPECIFICATION Spec
POSTCONDITION Consumed
