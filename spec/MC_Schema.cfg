SPECIFICATION Spec
INVARIANT MinDocAccepted
INVARIANT ChildNamedAfterClass
INVARIANT FoundByTag
INVARIANT NoDuplicateTags
INVARIANT GroupsWellFormed
INVARIANT GroupsInForce
INVARIANT ListChildrenAdjacent
INVARIANT ListElementsInElementList
