SPECIFICATION Spec
POSTCONDITION Consumed
