------------------------------ MODULE OFXGetConfig ------------------------------
(***************************************************************************)
(* ofxget settings (C18): where an option's value comes from, and what     *)
(* --write must achieve.  Every value is a text (code points); the empty   *)
(* text is "not set" (None, "" and [] are identified); booleans are        *)
(* "true"/"false", integers their digits, lists their items joined by the  *)
(* unit separator 31.                                                      *)
(*   file   : [server -> [option -> text]]     the user's ofxget.cfg       *)
(*   fidb   : [server -> [option -> text]]     the bundled FI database     *)
(*   home   : sequence of [id, url, org, fid, brokerid] (texts)   OFX Home  *)
(*   dflt   : [option -> text]                 built-in defaults           *)
(***************************************************************************)
EXTENDS Integers, Sequences, FiniteSets, TLC

Null == <<>>
\* an option given on the command line as the empty text: "explicitly nothing" - it outranks the lower sources and
\* the effective value is "not set" (this is how `--ofxhome ""` suppresses the OFX Home lookup)
Blank == <<0>>
Norm(v) == IF v = Blank THEN Null ELSE v
First(seq) == LET S == {i \in 1..Len(seq) : seq[i] # Null} IN
              IF S = {} THEN Null ELSE seq[CHOOSE i \in S : \A j \in S : i <= j]
Get(tbl, key, opt) == IF key \in DOMAIN tbl /\ opt \in DOMAIN tbl[key] THEN tbl[key][opt] ELSE Null
HomeOpts == {"url", "org", "fid", "brokerid"}
HomeGet(home, id, opt) == LET S == {i \in 1..Len(home) : home[i].id = id} IN
                          IF id = Null \/ S = {} THEN Null ELSE home[CHOOSE i \in S : TRUE][opt]

\* OFX Home is consulted when an id is configured (command line, user file or FI database);
\* the id itself follows the same precedence
HomeId(srv, cli, file, fidb, dflt) == First(<<Get([c |-> cli], "c", "ofxhome"), Get(file, srv, "ofxhome"), Get(fidb, srv, "ofxhome")>>)
FromHome(srv, cli, file, fidb, home, dflt, opt) ==
  IF opt \in HomeOpts THEN HomeGet(home, HomeId(srv, cli, file, fidb, dflt), opt) ELSE Null

\* command line > user file > FI database > OFX Home > default, independently for each option
Effective(srv, cli, file, fidb, home, dflt, opt) ==
  Norm(First(<<Get([c |-> cli], "c", opt), Get(file, srv, opt), Get(fidb, srv, opt),
          FromHome(srv, cli, file, fidb, home, dflt, opt), Get([d |-> dflt], "d", opt)>>))

\* what the next run sees without command-line options
NoCli == [x \in {} |-> Null]
Restored(srv, file, fidb, home, dflt, opt) == Effective(srv, NoCli, file, fidb, home, dflt, opt)

\* reference --write: store exactly what is needed for the value to come back
WhatOthersGive(srv, fidb, home, dflt, file, opt) ==
  First(<<Get(fidb, srv, opt),
          IF opt \in HomeOpts THEN HomeGet(home, First(<<Get(file, srv, "ofxhome"), Get(fidb, srv, "ofxhome")>>), opt) ELSE Null,
          Get([d |-> dflt], "d", opt)>>)
=============================================================================
