SPECIFICATION Spec
POSTCONDITION Consumed
