SPECIFICATION Spec
POSTCONDITION Consumed
