------------------------------ MODULE Trace_GetConfig ------------------------------
(***************************************************************************)
(* Code -> spec for ofxget settings (C18).  The log is a sequence of       *)
(* histories; each history starts with an "env" event (FI database, OFX    *)
(* Home table, defaults, persistable options, empty user file) followed by *)
(* "run" events.  The trace specification carries real state: the user     *)
(* file and the default CLIENTUID as the specification knows them; every   *)
(* run is judged against that state and moves it.                          *)
(***************************************************************************)
EXTENDS OFXGetConfig, TraceBase, SequencesExt

VARIABLES l, file, uid, env
vars == <<l, file, uid, env>>

HasSubText(txt, pat) == pat # <<>> /\ \E i \in 1..(Len(txt) - Len(pat) + 1) : SubSeq(txt, i, i + Len(pat) - 1) = pat
Opts(e) == ToSet(e.opts)
DfltWithUid(d, u) == [o \in DOMAIN d |-> IF o = "clientuid" /\ u # Null THEN u ELSE d[o]]

JudgeRun(e) ==
  LET d == DfltWithUid(env.dflt, uid)
      effs == [o \in ToSet(env.opts) |-> Effective(e.srv, e.cli, file, env.fidb, env.home, d, o)]
      wrote == e.write /\ ~e.dry
      d2 == DfltWithUid(env.dflt, e.afteruid) IN
  IF ~e.ran /\ e.failed /\ wrote /\ effs["url"] # Null
     \* (omitting end tags with an OFX 2 version is a configuration no request can be made from)
     /\ ~(effs["unclosedelements"] = <<116, 114, 117, 101>> /\ effs["version"] # <<>> /\ effs["version"][1] = 50)
  THEN << <<"writing-run-completed " \o e.exc, FALSE>> >>     \* a --write run with a usable configuration must not fail
  ELSE IF ~e.ran
  THEN \* ofxget refused to run or failed (e.g. no URL from any source): only "nothing stored" is judged for a run that was
       \* not to write at all
       (IF ~wrote THEN << <<IF e.dry THEN "dry-run-stores-nothing (failed run)" ELSE "no-write-stores-nothing (failed run)",
                            e.after = file /\ e.afteruid = uid>> >> ELSE <<>>)
  ELSE
  [i \in 1..Len(env.opts) |->
     <<"precedence " \o env.opts[i], e.eff[env.opts[i]] = effs[env.opts[i]]>>] \o
  (IF wrote
   THEN [i \in 1..Len(env.opts) |->
           <<"persist " \o env.opts[i],
             \* (the very first --write generates the default CLIENTUID: a run that had none may get it afterwards)
             \/ (env.opts[i] = "clientuid" /\ e.eff[env.opts[i]] = Null /\ uid = Null)
             \* (an explicit blank cannot be written to the file: the lower sources come back)
             \/ e.cli[env.opts[i]] = Blank
             \/ (e.cli["ofxhome"] = Blank /\ env.opts[i] \in HomeOpts)
             \/ Restored(e.srv, e.after, env.fidb, env.home, d2, env.opts[i]) = e.eff[env.opts[i]]>>] \o
        << <<"no-password-stored", ~HasSubText(e.filetext, e.password)>>,
           <<"default-clientuid-generated-once", e.afteruid # Null /\ (uid # Null => e.afteruid = uid)>>,
           <<"other-servers-untouched", \A s \in DOMAIN e.after : s # e.srv => (s \in DOMAIN file /\ e.after[s] = file[s])>> >>
   ELSE << <<IF e.dry THEN "dry-run-stores-nothing" ELSE "no-write-stores-nothing", e.after = file /\ e.afteruid = uid>> >>)

Init == l = 1 /\ file = [none |-> <<>>] /\ uid = Null /\ env = [none |-> <<>>]
Next == /\ l <= Len(Log)
        /\ LET e == Log[l] IN
           IF e.op = "env"
           THEN /\ env' = e /\ file' = e.file /\ uid' = Null
           ELSE /\ Report(e.id, JudgeRun(e))
                /\ file' = e.after /\ uid' = e.afteruid /\ UNCHANGED env
        /\ l' = l + 1
Spec == Init /\ [][Next]_vars
=============================================================================
