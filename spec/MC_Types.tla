------------------------------ MODULE MC_Types ------------------------------
(***************************************************************************)
(* Model-level theorems about OFXTypes (C09, C10, C11) checked by TLC on   *)
(* boundary grids, and emission of the grid cases for replay on the code.  *)
(* One state = one case chosen in Init; there are no transitions.          *)
(***************************************************************************)
EXTENDS OFXTypes, TLC, Json, IOUtils

CONSTANTS Years, OffStep, Mode    \* Mode: "dt" | "dtw" | "ty"

VARIABLE c
vars == <<c>>

DtTy == Ty("dt", -1, -1, {}, FALSE)
TmTy == Ty("time", -1, -1, {}, FALSE)

(***************************************************************************)
(* C09 read grid                                                           *)
(***************************************************************************)
MonthDays(y) == {<<m, d>> : m \in 1..12, d \in {1, 28, 29, 30, 31}}
ValidMD(y) == {md \in MonthDays(y) : md[2] <= DIM(y, md[1])}
Times == {<<0, 0, 0, 0>>, <<11, 59, 59, 999>>, <<23, 59, 59, 999>>, <<12, 30, 15, 7>>}
Offsets == {o \in -720..840 : o % OffStep = 0} \cup {-30, 30, -570, 345}
Notations == {"d", "dt", "dtms", "full", "jpm"}
OForms == {"signed", "unsigned", "padded", "named", "dot00"}

Applicable(x) ==
  /\ x.d <= DIM(x.y, x.m)
  /\ (x.nota = "d" => x.hh = 0 /\ x.mi = 0 /\ x.ss = 0 /\ x.ms = 0)
  /\ (x.nota \in {"dt", "jpm"} => x.ms \in {0, 999})

\* two-level enumeration: few initial states (seeds), the grid as their successors, so that
\* TLC's workers share the work (initial states are computed by one thread only)
MDs(y) == {md \in MonthDays(y) : md[2] \in {1, 28, DIM(y, md[1])} /\ md[2] <= DIM(y, md[1])}
InitDt ==
  \E k \in {"dt", "time"} :
  \E y \in (IF k = "dt" THEN Years ELSE {1999}) :
  \E md \in (IF k = "dt" THEN MDs(y) ELSE {<<6, 8>>}) :
    c = [seed |-> TRUE, kind |-> k, y |-> y, m |-> md[1], d |-> md[2]]
NextDt ==
  /\ c.seed
  /\ \E t \in Times :
     \E n \in (IF c.kind = "dt" THEN Notations ELSE Notations \ {"d"}) :
     \E o \in (IF n \in {"full", "jpm"} THEN Offsets ELSE {0}) :
     \E f \in (IF n \in {"full", "jpm"} THEN OForms ELSE {"signed"}) :
       /\ c' = [seed |-> FALSE, kind |-> c.kind, y |-> c.y, m |-> c.m, d |-> c.d,
                hh |-> t[1], mi |-> t[2], ss |-> t[3], ms |-> t[4], nota |-> n, off |-> o, oform |-> f]
       /\ Applicable(c')

ZoneName == <<69, 83, 84>>   \* EST
OffsetForm(off, f) ==
  LET a == IF off < 0 THEN 0 - off ELSE off
      h == a \div 60
      mm == a % 60
      sign == IF off < 0 THEN <<MINUS>> ELSE IF f = "unsigned" THEN <<>> ELSE <<PLUS>>
      hh == IF f = "padded" THEN Pad(h, 2) ELSE NatText(h)
      tail == IF mm # 0 \/ f = "dot00" THEN <<DOT>> \o Pad(mm, 2) ELSE <<>>
  IN sign \o hh \o tail \o (IF f = "named" THEN <<COLON>> \o ZoneName ELSE <<>>)

Render(x) ==
  LET date == IF x.kind = "time" THEN <<>> ELSE Pad(x.y, 4) \o Pad(x.m, 2) \o Pad(x.d, 2)
      time == Pad(x.hh, 2) \o Pad(x.mi, 2) \o Pad(x.ss, 2)
      msx == IF x.nota \in {"dt", "jpm"} THEN 0 ELSE x.ms IN
  CASE x.nota = "d" -> date
    [] x.nota = "dt" -> date \o time
    [] x.nota = "dtms" -> date \o time \o <<DOT>> \o Pad(msx, 3)
    [] x.nota = "full" -> date \o time \o <<DOT>> \o Pad(msx, 3) \o <<LBR>> \o OffsetForm(x.off, x.oform) \o <<RBR>>
    [] x.nota = "jpm" -> date \o time \o <<LBR>> \o OffsetForm(x.off, x.oform) \o <<RBR>>

\* the instant the notation denotes, by the independent day count
Expected(x) ==
  LET msx == IF x.nota \in {"dt", "jpm"} THEN 0 ELSE x.ms
      loc == ((x.hh * 60 + x.mi) * 60 + x.ss) * 1000 + msx
      u == loc - x.off * 60000
      dsh == IF u < 0 THEN -1 ELSE IF u >= 86400000 THEN 1 ELSE 0 IN
  IF x.kind = "time" THEN [t |-> "time", ms |-> u - dsh * 86400000]
  ELSE [t |-> "dt", day |-> DayCount(x.y, x.m, x.d) + dsh, ms |-> u - dsh * 86400000]

\* single-field corruptions of a valid text (C09: all must be rejected)
SetAt(s, i, ch) == [s EXCEPT ![i] = ch]
Corruptions(x) ==
  LET s == Render(x) dl == IF x.kind = "time" THEN 0 ELSE 8 IN
  (IF x.kind = "dt" THEN {SetAt(SetAt(s, 5, 49), 6, 51),           \* month 13
                          SetAt(SetAt(s, 5, 48), 6, 48),           \* month 00
                          SetAt(SetAt(s, 7, 48), 8, 48),           \* day 00
                          SetAt(SetAt(s, 7, 51), 8, 50),           \* day 32
                          SetAt(s, 1, 65),                         \* letter in the year
                          Tail(s)}                                 \* one character short
   ELSE {}) \cup
  (IF x.nota # "d" THEN {SetAt(SetAt(s, dl + 1, 50), dl + 2, 52),   \* hour 24
                         SetAt(SetAt(s, dl + 3, 54), dl + 4, 48),   \* minute 60
                         SetAt(SetAt(s, dl + 5, 54), dl + 6, 49),   \* second 61
                         SetAt(s, dl + 6, 120),                     \* letter
                         SubSeq(s, 1, dl + 5) \o SubSeq(s, dl + 7, Len(s)),          \* a digit missing
                         SubSeq(s, 1, dl + 6) \o <<48>> \o SubSeq(s, dl + 7, Len(s))} \* a digit too many
   ELSE {s \o <<48>>, s \o <<LBR, 53, RBR>>}) \cup
  (IF x.nota = "full" THEN {SubSeq(s, 1, Len(s) - 1),              \* bracket not closed
                            SubSeq(s, 1, dl + 9) \o SubSeq(s, dl + 11, Len(s))}   \* two ms digits
   ELSE {})

ReadOK == (Mode = "dt" /\ ~c.seed) => (Conv(IF c.kind = "time" THEN TmTy ELSE DtTy, Render(c)) = Expected(c))
CorruptRejected == (Mode = "dt" /\ ~c.seed /\ c.oform = "signed" /\ c.off \in {0, -300, 330}) => \A s \in Corruptions(c) :
                      Conv(IF c.kind = "time" THEN TmTy ELSE DtTy, s) = RejectV
DayCountsAgree == (Mode = "dt" /\ c.seed) => DaysFromCivil(c.y, c.m, c.d) = DayCount(c.y, c.m, c.d)
                                 /\ CivilFromDays(DayCount(c.y, c.m, c.d)) = [y |-> c.y, m |-> c.m, d |-> c.d]

(***************************************************************************)
(* C09 write grid: value -> texts -> value within half a millisecond       *)
(***************************************************************************)
WDays(y) == {<<1, 1>>, <<2, 28>>, <<3, 1>>, <<12, 31>>, <<6, 8>>}
InitW == \E k \in {"dt", "time"} : \E y \in (IF k = "dt" THEN Years ELSE {1999}) : \E md \in (IF k = "dt" THEN WDays(y) ELSE {<<6, 8>>}) :
           c = [seed |-> TRUE, kind |-> k, day |-> DayCount(y, md[1], md[2])]
NextW == /\ c.seed
         /\ \E ms \in {0, 1, 43199999, 86399998, 86399999} : \E us \in {0, 1, 499, 500, 501, 999} :
            \E o \in Offsets : \E hn \in BOOLEAN :
              c' = [seed |-> FALSE, kind |-> c.kind, day |-> c.day, ms |-> ms, us |-> us, off |-> o, hasname |-> hn,
                    name |-> ZoneName, t |-> IF c.kind = "dt" THEN "dtv" ELSE "timev"]

AbsDiffUs(v, r, isTime) ==   \* |instant(r) - instant(v)| in microseconds, r = Conv result
  LET dv == IF isTime THEN 0 ELSE v.day
      dr == IF isTime THEN 0 ELSE r.day
      dd == dr - dv
      raw == dd * 86400000 + (r.ms - v.ms)
      \* times wrap around midnight
      w == IF isTime THEN (IF raw > 43200000 THEN raw - 86400000 ELSE IF raw < -43200000 THEN raw + 86400000 ELSE raw) ELSE raw
      us == w * 1000 - v.us IN
  IF w > 1 \/ w < -1 THEN 1000000 ELSE IF us < 0 THEN 0 - us ELSE us
WriteOK == (Mode = "dtw" /\ ~c.seed) =>
  LET isT == c.kind = "time" ty == IF isT THEN TmTy ELSE DtTy IN
  \A w \in Unconv(ty, c) : LET s == w.s IN
     /\ DTLexical(s, isT)
     /\ Conv(ty, s).t \in {"dt", "time"}
     /\ AbsDiffUs(c, Conv(ty, s), isT) <= 500
     /\ Offset(DTParts(s, isT).otxt).min = c.off
WriteSome == (Mode = "dtw" /\ ~c.seed) => Unconv(IF c.kind = "time" THEN TmTy ELSE DtTy, c) # {}

(***************************************************************************)
(* C10 / C11 grid over the scalar types                                    *)
(***************************************************************************)
T(s) == s   \* texts are written as code point tuples below
Tok1 == <<67, 65, 76, 76>>   \* CALL
Tok2 == <<80, 85, 84>>       \* PUT
TyGrid ==
  {Ty("int", l, -1, {}, r) : l \in {-1, 1, 2, 3}, r \in BOOLEAN} \cup
  {Ty("dec", -1, sc, {}, r) : sc \in {-1, 0, 1, 2, 4}, r \in BOOLEAN} \cup
  {Ty("str", l, -1, {}, r) : l \in {-1, 1, 3, 6}, r \in BOOLEAN} \cup
  {Ty("nag", l, -1, {}, r) : l \in {-1, 3}, r \in BOOLEAN} \cup
  {Ty("oneof", -1, -1, {Tok1, Tok2}, r) : r \in BOOLEAN} \cup
  {Ty("bool", -1, -1, {}, r) : r \in BOOLEAN}

IntTexts == {<<48>>, <<57>>, <<49, 48>>, <<57, 57>>, <<49, 48, 48>>, <<57, 57, 57>>, <<49, 48, 48, 48>>,
             <<45, 49>>, <<45, 57, 57, 57>>, <<45, 49, 48, 48, 48>>, <<43, 53>>, <<48, 48, 55>>, <<45, 48>>,
             <<49, 46, 53>>, <<97>>, <<45>>, <<49, 45>>, <<49, 50, 51, 52, 53, 54, 55, 56, 57, 48, 49, 50>>}
DecTexts == {<<48>>, <<49, 46, 53>>, <<49, 44, 53>>, <<45, 49, 46, 50, 53>>, <<43, 48, 46, 53>>, <<46, 53>>, <<53, 46>>,
             <<49, 46, 48, 48, 53>>, <<49, 46, 48, 49, 53>>, <<49, 46, 48, 50, 53>>, <<48, 46, 53>>, <<49, 46, 53, 48>>, <<50, 46, 53>>,
             <<45, 48, 46, 48, 48, 52>>, <<57, 46, 57, 57, 53>>, <<57, 57, 46, 57, 57, 53>>, <<49, 48, 48>>, <<48, 46, 48, 48>>,
             <<49, 46, 50, 46, 51>>, <<49, 44, 50, 51, 52, 46, 53>>, <<45, 45, 49>>, <<97, 98, 99>>, <<46>>, <<45>>, <<49, 46, 48, 48, 48, 48, 53>>,
             <<48, 46, 48, 48, 48, 48, 48, 48, 49>>, <<49, 50, 51, 52, 53, 54, 55, 56, 57, 48, 49, 50, 46, 51, 52, 53>>}
StrTexts == {<<97>>, <<97, 98, 99>>, <<97, 98, 99, 100>>, <<97, 98, 99, 100, 101, 102>>, <<97, 98, 99, 100, 101, 102, 103>>,
             <<97, 32, 98>>, E_AMP, E_LT \o <<97>>, <<97>> \o E_GT, E_NBSP, E_APOS \o E_QUOT, <<38, 97, 109, 112, 59, 108, 116, 59>>,
             <<38>>, <<38, 120, 59>>, <<233, 8364>>, <<34, 39>>, <<>>, Tok1, Tok2, <<99, 97, 108, 108>>, <<89>>, <<78>>, <<121>>}
TextsFor(ty) == CASE ty.k = "int" -> IntTexts \cup {<<>>}
                  [] ty.k = "dec" -> DecTexts
                  [] OTHER -> StrTexts

\* values of the domain, for the write direction
IntVals == {[t |-> "int", neg |-> n, d |-> d] : n \in BOOLEAN, d \in {<<0>>, <<9>>, <<1, 0>>, <<9, 9>>, <<1, 0, 0>>, <<9, 9, 9>>, <<1, 0, 0, 0>>}}
              \ {[t |-> "int", neg |-> TRUE, d |-> <<0>>]}
DecVals == {[t |-> "dec", neg |-> n, d |-> d, exp |-> e] : n \in BOOLEAN,
              d \in {<<0>>, <<5>>, <<1, 5>>, <<1, 0, 0>>, <<1, 2, 3, 4, 5>>}, e \in {-8, -7, -4, -2, -1, 0, 1, 2}}
StrVals == {[t |-> "str", s |-> s] : s \in (StrTexts \ {<<>>})}
ValsFor(ty) == CASE ty.k = "int" -> IntVals [] ty.k = "dec" -> DecVals
                 [] ty.k = "bool" -> {[t |-> "bool", b |-> TRUE], [t |-> "bool", b |-> FALSE]}
                 [] OTHER -> StrVals
WrongVals(ty) == CASE ty.k = "int" -> StrVals \cup {[t |-> "bool", b |-> TRUE]}
                   [] ty.k = "dec" -> IntVals \cup StrVals
                   [] ty.k = "bool" -> StrVals \cup IntVals
                   [] OTHER -> IntVals \cup {[t |-> "bool", b |-> TRUE]}

TyCases == {[ty |-> ty, dir |-> "r", x |-> s, v |-> NoneV] : ty \in TyGrid, s \in {<<>>}} \cup
           UNION {{[ty |-> ty, dir |-> "r", x |-> s, v |-> NoneV] : s \in TextsFor(ty)} : ty \in TyGrid} \cup
           UNION {{[ty |-> ty, dir |-> "w", x |-> <<>>, v |-> v] : v \in ValsFor(ty) \cup WrongVals(ty) \cup {NoneV}} : ty \in TyGrid}

IsValue(v) == v.t \in {"bool", "str", "int", "dec"}
\* what Conv's value looks like as an input of Unconv
\* writing then reading returns the value
RoundTrip == (Mode = "ty" /\ c.dir = "w") =>
  \A w \in Unconv(c.ty, c.v) :
     \/ w = NoneV
     \/ (c.v.t = "str" /\ HasEntityLike(c.v.s))            \* known: the type level cannot express these
     \/ LET r == Conv(c.ty, w.s) IN
        IF c.v.t = "dec" /\ c.v.exp > 0 THEN r.t = "dec" /\ DecSameNumber(r, c.v) ELSE r = c.v
\* reading then writing gives a canonical fixed point that reads to the same value
Canonical == (Mode = "ty" /\ c.dir = "r") =>
  LET v == Conv(c.ty, c.x) IN
  IsValue(v) => /\ Unconv(c.ty, v) # {}
                /\ \A w \in Unconv(c.ty, v) :
                     \/ (v.t = "str" /\ HasEntityLike(v.s))
                     \/ (Conv(c.ty, w.s) = v /\ Unconv(c.ty, Conv(c.ty, w.s)) = {w})
NonePasses == (Mode = "ty" /\ c.dir = "w" /\ c.v = NoneV) => (Unconv(c.ty, NoneV) = IF c.ty.req THEN {} ELSE {NoneV})
WrongTypeRefused == (Mode = "ty" /\ c.dir = "w" /\ c.v \in WrongVals(c.ty)) => Unconv(c.ty, c.v) = {}
WrittenIsLexical == (Mode = "ty" /\ c.dir = "w") => \A w \in Unconv(c.ty, c.v) : w = NoneV \/ Lexical(c.ty, w.s)
\* limits: at the limit accepted, one beyond rejected
Pow10D(n) == <<1>> \o Zeros(n)
Nines(n) == [i \in 1..n |-> 9]
Limits == (Mode = "ty" /\ c.dir = "r" /\ c.x = <<>>) =>
  /\ (c.ty.k = "int" /\ c.ty.len # -1) =>
        /\ Conv(c.ty, DigitsText(Nines(c.ty.len))).t = "int"
        /\ Conv(c.ty, <<MINUS>> \o DigitsText(Nines(c.ty.len))).t = "int"
        /\ Conv(c.ty, DigitsText(Pow10D(c.ty.len))) = RejectV
        /\ Conv(c.ty, <<MINUS>> \o DigitsText(Pow10D(c.ty.len))) = RejectV
        /\ Unconv(c.ty, [t |-> "int", neg |-> FALSE, d |-> Pow10D(c.ty.len)]) = {}
        /\ Unconv(c.ty, [t |-> "int", neg |-> FALSE, d |-> Nines(c.ty.len)]) # {}
  /\ (c.ty.k = "str" /\ c.ty.len # -1) =>
        /\ Conv(c.ty, [i \in 1..c.ty.len |-> 97]).t = "str"
        /\ Conv(c.ty, [i \in 1..(c.ty.len + 1) |-> 97]) = RejectV
        /\ Unconv(c.ty, [t |-> "str", s |-> [i \in 1..(c.ty.len + 1) |-> 97]]) = {}
  /\ (c.ty.k = "nag" /\ c.ty.len # -1) =>
        /\ Conv(c.ty, [i \in 1..(c.ty.len + 1) |-> 97]) = [t |-> "str", s |-> [i \in 1..(c.ty.len + 1) |-> 97]]

Init == CASE Mode = "dt" -> InitDt
          [] Mode = "dtw" -> InitW
          [] Mode = "ty" -> c \in TyCases
Next == CASE Mode = "dt" -> NextDt [] Mode = "dtw" -> NextW [] OTHER -> UNCHANGED c
Spec == Init /\ [][Next]_vars

\* emission of cases for replay on the real code (-workers 1); EMITMOD thins the grid
EmitMod == atoi(IOEnv.EMITMOD)
Emit == IF EmitMod > 0 /\ (Mode \in {"dt", "dtw"} => ~c.seed) /\ TLCGet("distinct") % EmitMod = 0
        THEN PrintT("CASE " \o ToJson(
               CASE Mode = "dt" -> [mode |-> "dt", kind |-> c.kind, txt |-> Render(c), bad |-> SetToSeq(Corruptions(c))]
                 [] Mode = "dtw" -> [mode |-> "dtw", kind |-> c.kind, v |-> c]
                 [] Mode = "ty" -> [mode |-> "ty", dir |-> c.dir, ty |-> [c.ty EXCEPT !.valid = SetToSeq(@)], x |-> c.x, v |-> c.v]))
        ELSE TRUE
=============================================================================
