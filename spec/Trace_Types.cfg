SPECIFICATION Spec
POSTCONDITION Consumed
