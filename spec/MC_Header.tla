------------------------------ MODULE MC_Header ------------------------------
(***************************************************************************)
(* Header layouts (C05) and header corruptions (C12): the writer below     *)
(* chooses a layout, RefParse must return exactly the chosen fields and    *)
(* body; every corruption must be refused.  Cases are emitted for replay.  *)
(***************************************************************************)
EXTENDS OFXHeader, TLC, Json, IOUtils

VARIABLE c

S(x) == x
CRLFs == <<13, 10>>
Seps == {"crlf", "lf", "cr", "none", "sp"}
SepText(s) == CASE s = "crlf" -> <<13, 10>> [] s = "lf" -> <<10>> [] s = "cr" -> <<13>> [] s = "none" -> <<>> [] s = "sp" -> <<32>>
Leads == {<<>>, <<13, 10>>, <<10, 10>>, <<32, 10>>}
Gaps == {<<>>, <<10>>, <<13, 10>>, <<13, 10, 13, 10>>, <<13>>, <<32>>, <<10, 10, 10>>}
Trails == {<<>>, <<10>>, <<13, 10, 32, 32>>}
Uid1 == <<78, 79, 78, 69>>
Uid36 == [i \in 1..36 |-> IF i % 9 = 0 THEN 45 ELSE IF i % 7 = 0 THEN 95 ELSE 97 + (i % 26)]
Uids == {Uid1, Uid36, <<48, 45, 95, 90>>}
\* body classes as code point texts
BodyAscii == <<60, 79, 70, 88, 62, 60, 65, 62, 120, 60, 47, 65, 62, 60, 47, 79, 70, 88, 62>>
BodyHi == <<60, 79, 70, 88, 62, 60, 65, 62, 8364, 233, 164, 60, 47, 65, 62, 60, 47, 79, 70, 88, 62>>      \* euro, e-acute, currency sign
BodyBreaks == <<60, 79, 70, 88, 62, 13, 10, 32, 32, 60, 65, 62, 120, 13, 10, 60, 47, 79, 70, 88, 62>>
BodyLatin == <<60, 79, 70, 88, 62, 60, 65, 62, 233, 164, 255, 60, 47, 65, 62, 60, 47, 79, 70, 88, 62>>
Bodies(cs) == IF cs = T_LATIN THEN {BodyAscii, BodyLatin, BodyBreaks} ELSE {BodyAscii, BodyHi, BodyBreaks}
\* encoding of a text in a character set (inverse tables)
EncodeCp1252(s) == [i \in 1..Len(s) |-> IF s[i] < 128 \/ s[i] \in 160..255 THEN s[i]
                                        ELSE 127 + (CHOOSE k \in 1..32 : CP1252Hi[k] = s[i])]
EncodeAs(cs, s) == IF cs = T_LATIN THEN s ELSE IF cs = T_1252 THEN EncodeCp1252(s) ELSE EncodeUtf8(s)

Blanks(n) == [i \in 1..n |-> 32]
Fields1Of(x) == <<<<49, 48, 48>>, <<79, 70, 88, 83, 71, 77, 76>>, NatText(x.version), x.security, x.encoding, x.charset,
                  <<78, 79, 78, 69>>, x.olduid, x.newuid>>
Render1(x, fv) ==   \* fv: the nine values; order: permutation of 1..9; omit: set of indices
  x.lead \o
  FoldLeft(LAMBDA acc, i : acc \o Names1[i] \o Blanks(x.blanks) \o fv[i] \o (IF i = 9 THEN <<>> ELSE SepText(x.sep)),
           <<>>, <<1, 2, 3, 4, 5, 6, 7, 8, 9>>) \o
  x.gap \o EncodeAs(x.charset, x.body) \o x.trail
Expected1(x) == [st |-> "ok", kind |-> 1,
                 f |-> [ofxheader |-> <<49, 48, 48>>, data |-> <<79, 70, 88, 83, 71, 77, 76>>, version |-> NatText(x.version),
                        security |-> x.security, encoding |-> x.encoding, charset |-> x.charset,
                        compression |-> <<78, 79, 78, 69>>, oldfileuid |-> x.olduid, newfileuid |-> x.newuid],
                 body |-> x.body]

Q(q) == IF q = "d" THEN <<34>> ELSE <<39>>
XmlDecl(x) == <<60, 63, 120, 109, 108, 32, 118, 101, 114, 115, 105, 111, 110, 61>> \o Q(x.xq) \o <<49, 46, 48>> \o Q(x.xq) \o
              <<32, 101, 110, 99, 111, 100, 105, 110, 103, 61>> \o Q(x.xq) \o <<85, 84, 70, 45, 56>> \o Q(x.xq) \o
              (IF x.standalone THEN <<32, 115, 116, 97, 110, 100, 97, 108, 111, 110, 101, 61>> \o Q(x.xq) \o <<110, 111>> \o Q(x.xq) ELSE <<>>) \o
              <<63, 62>>
Fields2Of(x) == <<<<50, 48, 48>>, NatText(x.version), x.security, x.olduid, x.newuid>>
Render2(x, fv) ==
  x.lead \o XmlDecl(x) \o x.br1 \o <<60, 63, 79, 70, 88>> \o
  FoldLeft(LAMBDA acc, i : acc \o <<32>> \o Names2[i] \o Q(x.oq) \o fv[i] \o Q(x.oq), <<>>, <<1, 2, 3, 4, 5>>) \o
  <<63, 62>> \o x.br2 \o EncodeUtf8(x.body) \o x.trail
Expected2(x) == [st |-> "ok", kind |-> 2,
                 f |-> [ofxheader |-> <<50, 48, 48>>, version |-> NatText(x.version), security |-> x.security,
                        oldfileuid |-> x.olduid, newfileuid |-> x.newuid],
                 body |-> x.body]

Init == \/ \E cs \in CharsetToks : \E sep \in Seps : \E v \in {102, 103, 151, 160} :
             c = [seed |-> TRUE, kind |-> 1, charset |-> cs, sep |-> sep, version |-> v]
        \/ \E v \in V2Versions : \E xq \in {"d", "s"} : \E oq \in {"d", "s"} :
             c = [seed |-> TRUE, kind |-> 2, version |-> v, xq |-> xq, oq |-> oq]
\* two families per seed: all layouts with plain fields, all field values in a plain layout
Usascii == <<85, 83, 65, 83, 67, 73, 73>>
None4 == <<78, 79, 78, 69>>
Mk1(lead, blanks, gap, trail, sec, enc, ou, nu, body) ==
  [seed |-> FALSE, kind |-> 1, charset |-> c.charset, sep |-> c.sep, version |-> c.version,
   lead |-> lead, blanks |-> blanks, gap |-> gap, trail |-> trail, security |-> sec,
   encoding |-> enc, olduid |-> ou, newuid |-> nu, body |-> body]
Mk2(lead, br1, br2, trail, sec, ou, nu, sa, body) ==
  [seed |-> FALSE, kind |-> 2, version |-> c.version, xq |-> c.xq, oq |-> c.oq, lead |-> lead,
   br1 |-> br1, br2 |-> br2, trail |-> trail, security |-> sec, olduid |-> ou, newuid |-> nu,
   standalone |-> sa, body |-> body]
Next ==
  /\ c.seed
  /\ \/ /\ c.kind = 1
        /\ \/ \E lead \in Leads : \E blanks \in 0..2 : \E gap \in Gaps : \E trail \in Trails : \E body \in Bodies(c.charset) :
                c' = Mk1(lead, blanks, gap, trail, None4, Usascii, Uid1, Uid1, body)
           \/ \E sec \in SecurityToks : \E enc \in EncodingToks : \E ou \in Uids : \E nu \in {Uid1, Uid36} :
              \E gap \in {<<>>, <<13, 10>>} : \E body \in Bodies(c.charset) :
                c' = Mk1(<<>>, 0, gap, <<>>, sec, enc, ou, nu, body)
     \/ /\ c.kind = 2
        /\ \/ \E lead \in {<<>>, <<10>>} : \E br1 \in {<<>>, <<10>>, <<13, 10>>} : \E br2 \in {<<>>, <<10>>, <<13, 10>>, <<32>>} :
              \E trail \in Trails : \E sa \in BOOLEAN : \E body \in {BodyAscii, BodyHi, BodyBreaks} :
                c' = Mk2(lead, br1, br2, trail, None4, Uid1, Uid1, sa, body)
           \/ \E sec \in SecurityToks : \E ou \in Uids : \E nu \in {Uid1, Uid36} : \E body \in {BodyAscii, BodyHi, BodyBreaks} :
                c' = Mk2(<<>>, <<10>>, <<10>>, <<>>, sec, ou, nu, TRUE, body)
Spec == Init /\ [][Next]_c

File(x) == IF x.kind = 1 THEN Render1(x, Fields1Of(x)) ELSE Render2(x, Fields2Of(x))
Expected(x) == IF x.kind = 1 THEN Expected1(x) ELSE Expected2(x)
\* glued fields (no separator) make the value of one field run into the next name: the reference
\* reading still separates them because names are found in order
LayoutParses == ~c.seed => RefParse(File(c)) = Expected(c)

(***************************************************************************)
(* corruptions (C12), evaluated on the compact layouts only                *)
(***************************************************************************)
Foreign == <<88, 89, 90, 90, 89>>    \* XYZZY
Uid37 == [i \in 1..37 |-> 97]
CorruptVals(x) ==
  LET fv == IF x.kind = 1 THEN Fields1Of(x) ELSE Fields2Of(x)
      n == Len(fv)
      uidpos == IF x.kind = 1 THEN {8, 9} ELSE {4, 5}
      verpos == IF x.kind = 1 THEN 3 ELSE 2 IN
  {[fv EXCEPT ![i] = Foreign] : i \in (1..n) \ uidpos} \cup
  {[fv EXCEPT ![i] = Uid37] : i \in uidpos} \cup
  {[fv EXCEPT ![verpos] = <<49, 48, 50, 48>>], [fv EXCEPT ![verpos] = <<49, 120, 50>>], [fv EXCEPT ![verpos] = <<>>],
   [fv EXCEPT ![1] = IF x.kind = 1 THEN <<50, 48, 48>> ELSE <<49, 48, 48>>]} \cup
  (IF x.kind = 2 THEN {[fv EXCEPT ![2] = <<50, 48, 52>>], [fv EXCEPT ![2] = <<50, 51, 48>>]} ELSE {})
RenderWith(x, fv) == IF x.kind = 1 THEN Render1(x, fv) ELSE Render2(x, fv)
\* omission / transposition at the text level
Render1Perm(x, order) ==
  x.lead \o
  FoldLeft(LAMBDA acc, i : acc \o Names1[i] \o Blanks(x.blanks) \o Fields1Of(x)[i] \o SepText(x.sep), <<>>, order) \o
  x.gap \o EncodeAs(x.charset, x.body) \o x.trail
Render2Perm(x, order) ==
  x.lead \o XmlDecl(x) \o x.br1 \o <<60, 63, 79, 70, 88>> \o
  FoldLeft(LAMBDA acc, i : acc \o <<32>> \o Names2[i] \o Q(x.oq) \o Fields2Of(x)[i] \o Q(x.oq), <<>>, order) \o
  <<63, 62>> \o x.br2 \o EncodeUtf8(x.body) \o x.trail
Drop(seq, i) == SubSeq(seq, 1, i - 1) \o SubSeq(seq, i + 1, Len(seq))
Swap(seq, i) == [seq EXCEPT ![i] = seq[i + 1], ![i + 1] = seq[i]]
Orders(x) == LET n == IF x.kind = 1 THEN 9 ELSE 5 base == [i \in 1..n |-> i] IN
             {Drop(base, i) : i \in (1..n) \ (IF x.kind = 1 THEN {7} ELSE {})} \cup {Swap(base, i) : i \in 1..(n - 1)}
CorruptFiles(x) == {RenderWith(x, fv) : fv \in CorruptVals(x)} \cup
                   {IF x.kind = 1 THEN Render1Perm(x, o) ELSE Render2Perm(x, o) : o \in Orders(x)}
Compact(x) == ~x.seed /\ x.lead = <<>> /\ x.trail = <<>> /\ x.body = BodyAscii /\ x.olduid = Uid1 /\ x.newuid = Uid1
              /\ (x.kind = 1 => x.blanks = 0 /\ x.gap \in {<<13, 10>>, <<>>} /\ x.sep \in {"crlf", "none"} /\ x.encoding = <<85, 83, 65, 83, 67, 73, 73>>)
              /\ (x.kind = 2 => x.br1 = <<10>> /\ x.br2 = <<10>> /\ x.standalone)
\* (a transposition with the optional COMPRESSION field reads as "COMPRESSION omitted", which is left open)
CorruptRefused == Compact(c) => \A b \in CorruptFiles(c) : RefParse(b).st \in {"refuse", "unjudged"}
CorruptMostlyRefused == Compact(c) => Cardinality({b \in CorruptFiles(c) : RefParse(b).st = "refuse"}) >= Cardinality(CorruptFiles(c)) - 2

EmitMod == atoi(IOEnv.EMITMOD)
Emit == IF EmitMod > 0 /\ ~c.seed /\ (Compact(c) \/ TLCGet("distinct") % EmitMod = 0)
        THEN PrintT("CASE " \o ToJson([kind |-> c.kind, file |-> File(c),
                                      bad |-> IF Compact(c) THEN SetToSeq(CorruptFiles(c)) ELSE <<>>]))
        ELSE TRUE
=============================================================================
