------------------------------ MODULE OFXNet ------------------------------
(***************************************************************************)
(* HTTP exchange machine (C14): clients with their own cookie jars, two    *)
(* hosts - the configured URL ("cfg") and the service URL the profile      *)
(* advertises ("cfg" or "svc") -, servers that may set a fresh session     *)
(* cookie on every response.                                               *)
(* One public call of the client is ONE action although it may issue two   *)
(* POSTs (profile lookup, then the request): Post is a state-to-state      *)
(* operator so that the cookie set by the first response is visible to     *)
(* the second request.                                                     *)
(*   st = [jar, issued, next, sent]                                        *)
(*   jar[c][h]   current value of client c's session cookie for host h     *)
(*               (0 = none)                                                *)
(*   issued      cookie value n was issued to issued[n] = <<client, host>> *)
(* A client created with persist_cookies=False keeps no cookie and sends   *)
(* none.                                                                   *)
(*   sent        sequence of POSTs [client, host, creds, kind, cookie,     *)
(*               mode]                                                     *)
(***************************************************************************)
EXTENDS Integers, Sequences, FiniteSets

Hosts == {"cfg", "svc"}
Kinds == {"profile", "stmt", "acctinfo", "tax"}
Modes == {"dry", "skip", "normal"}

\* nop: the clients created with persist_cookies=False - they keep no cookie and send none (the server still issues one)
\* (the annotation is for Apalache, spec/APA_Net.tla; TLC ignores it)
\* @type: ({jar: Str -> (Str -> Int), issued: Seq(<<Str, Str>>), next: Int, sent: Seq({client: Str, host: Str, creds: Str, kind: Str, cookie: Int, mode: Str})}, Str, Str, Str, Str, Str -> Bool, Str, Set(Str)) => {jar: Str -> (Str -> Int), issued: Seq(<<Str, Str>>), next: Int, sent: Seq({client: Str, host: Str, creds: Str, kind: Str, cookie: Int, mode: Str})};
Post(st, c, h, creds, kind, sets, mode, nop) ==
  [jar |-> IF sets[h] /\ c \notin nop THEN [st.jar EXCEPT ![c][h] = st.next] ELSE st.jar,
   issued |-> IF sets[h] THEN Append(st.issued, <<c, h>>) ELSE st.issued,
   next |-> IF sets[h] THEN st.next + 1 ELSE st.next,
   sent |-> Append(st.sent, [client |-> c, host |-> h, creds |-> creds, kind |-> kind, cookie |-> st.jar[c][h], mode |-> mode])]

\* the POSTs of one public call
Posts(st, c, kind, mode, adv, sets, nop) ==
  IF mode = "dry" THEN st
  ELSE IF kind = "profile" THEN Post(st, c, "cfg", "anon", "profile", sets, mode, nop)
  ELSE IF mode = "skip" THEN Post(st, c, "cfg", "user", kind, sets, mode, nop)
  ELSE Post(Post(st, c, "cfg", "anon", "profile", sets, mode, nop), c, adv, "user", kind, sets, mode, nop)
=============================================================================
