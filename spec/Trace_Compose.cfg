SPECIFICATION Spec
POSTCONDITION Consumed
