SPECIFICATION Spec
CONSTANTS
  Years = {1999, 2000, 2024}
  OffStep = 60
  Mode = "dt"
INVARIANT ReadOK
INVARIANT CorruptRejected
INVARIANT DayCountsAgree
CONSTRAINT Emit
