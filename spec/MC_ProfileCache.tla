------------------------------ MODULE MC_ProfileCache ------------------------------
(***************************************************************************)
(* Instances of the profile cache protocol.  The constants that mirror the *)
(* implementation (write variant, which clients share a cache key) are     *)
(* detected from the real code by the harness and substituted here.        *)
(***************************************************************************)
EXTENDS ProfileCache
CONSTANTS SameKey, SameServer

MC_Clients == {"c1", "c2"}
MC_Servers == IF SameServer THEN {"s1"} ELSE {"s1", "s2"}
MC_Keys == IF SameKey THEN {"k1"} ELSE {"k1", "k2"}
MC_KeyOf == [c \in MC_Clients |-> IF SameKey \/ c = "c1" THEN "k1" ELSE "k2"]
MC_SrvOf == [c \in MC_Clients |-> IF SameServer \/ c = "c1" THEN "s1" ELSE "s2"]
\* only c1 runs (sequential histories with crashes): c2 never starts
OnlyC1 == pc["c2"] = "idle"
=============================================================================
