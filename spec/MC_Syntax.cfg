SPECIFICATION Spec
CONSTANT MaxLen = 6
INVARIANT Sound
INVARIANT Complete
INVARIANT LexPrint
CONSTRAINT Emit
