SPECIFICATION Spec
POSTCONDITION Consumed
