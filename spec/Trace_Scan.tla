------------------------------ MODULE Trace_Scan ------------------------------
(* Code -> spec for ofxget's profile scan (extension E01). *)
EXTENDS OFXScan, TraceBase
VARIABLE l
SetOf(seq) == {seq[i] : i \in 1..Len(seq)}
Judge(e) ==
  LET works == SetOf(e.works) IN
  << <<"scan-v1-report", FamilyOK(works, V1, e.v1)>>,
     <<"scan-v2-report", FamilyOK(works, V2, e.v2)>>,
     <<"scan-best-proposal", BestOK(works, e.v1, e.v2, e.best)>>,
     <<"scan-proposal-worked-under-assumption",
        (Uniform(works, V1) /\ Uniform(works, V2) /\ ~e.best.none) => [v |-> e.best.version, p |-> e.best.p, u |-> e.best.u] \in works>> >>
Init == l = 1
Next == l <= Len(Log) /\ Report(Log[l].id, Judge(Log[l])) /\ l' = l + 1
Spec == Init /\ [][Next]_l
=============================================================================
