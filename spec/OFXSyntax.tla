------------------------------ MODULE OFXSyntax ------------------------------
(***************************************************************************)
(* OFX body wire syntax (SGML and XML forms): a character-level lexer, the *)
(* reference pushdown tree builder, an independent grammar (Derivations),  *)
(* and the writer with its per-node rendering choices.                     *)
(*                                                                         *)
(* tokens:  [k |-> "S", v |-> name]   start tag                            *)
(*          [k |-> "E", v |-> name]   end tag                              *)
(*          [k |-> "D", v |-> data]   character data, ASCII-trimmed, still *)
(*                                    entity-escaped                       *)
(*          [k |-> "C", v |-> data]   CDATA section                        *)
(*          [k |-> "X", v |-> <<>>]   lexical error                        *)
(* tree:    <<tag, data, kids>>       data = <<>> for aggregates           *)
(***************************************************************************)
EXTENDS OFXText

CDOPEN == <<60, 33, 91, 67, 68, 65, 84, 65, 91>>   \* <![CDATA[
CDCLOSE == <<93, 93, 62>>                          \* ]]>

IsTagChar(c) == IsUpper(c) \/ IsDigit(c) \/ c = 46 \/ c = 95
TagNameOK(n) == n # <<>> /\ \A i \in 1..Len(n) : IsTagChar(n[i])

(***************************************************************************)
(* Lexer: one left-to-right pass (FoldLeft over the positions) with modes  *)
(* text / tag / cdata; `skip` swallows the rest of a multi-character       *)
(* delimiter, `start` is where the current segment began                   *)
(***************************************************************************)
LexStep(txt, st, i) ==
  IF st.skip > 0 THEN [st EXCEPT !.skip = @ - 1]
  ELSE IF st.mode = "text" THEN
       (IF txt[i] # LT THEN st
        ELSE LET data == SubSeq(txt, st.start, i - 1)
                 toks1 == IF IsBlank(data) THEN st.toks ELSE Append(st.toks, [k |-> "D", v |-> Trim(data)]) IN
             IF StartsAt(txt, i, CDOPEN)
             THEN [mode |-> "cdata", start |-> i + 9, skip |-> 8, toks |-> toks1]
             ELSE [mode |-> "tag", start |-> i + 1, skip |-> 0, toks |-> toks1])
  ELSE IF st.mode = "tag" THEN
       (IF txt[i] # GT THEN st
        ELSE LET name == SubSeq(txt, st.start, i - 1) IN
             [mode |-> "text", start |-> i + 1, skip |-> 0,
              toks |-> Append(st.toks, IF name # <<>> /\ name[1] = SLASH THEN [k |-> "E", v |-> Tail(name)]
                                       ELSE [k |-> "S", v |-> name])])
  ELSE \* cdata
       (IF ~StartsAt(txt, i, CDCLOSE) THEN st
        ELSE [mode |-> "text", start |-> i + 3, skip |-> 2,
              toks |-> Append(st.toks, [k |-> "C", v |-> SubSeq(txt, st.start, i - 1)])])
Lex(txt) ==
  LET st == FoldLeft(LAMBDA s, i : LexStep(txt, s, i), [mode |-> "text", start |-> 1, skip |-> 0, toks |-> <<>>],
                     [i \in 1..Len(txt) |-> i]) IN
  IF st.mode # "text" THEN Append(st.toks, [k |-> "X", v |-> <<>>])
  ELSE LET data == SubSeq(txt, st.start, Len(txt)) IN
       IF IsBlank(data) THEN st.toks ELSE Append(st.toks, [k |-> "D", v |-> Trim(data)])

\* streams the properties leave open: tag names outside the OFX alphabet, text before the first
\* tag, character data mixed with a CDATA section, empty CDATA
Open(toks) ==
  \/ \E i \in 1..Len(toks) : toks[i].k \in {"S", "E"} /\ ~TagNameOK(toks[i].v)
  \/ toks # <<>> /\ toks[1].k \in {"D", "C"}
  \/ \E i \in 1..(Len(toks) - 1) : toks[i].k \in {"D", "C"} /\ toks[i + 1].k \in {"D", "C"}
  \/ \E i \in 1..Len(toks) : toks[i].k = "C" /\ (toks[i].v = <<>> \/ IsWS(toks[i].v[1]) \/ IsWS(toks[i].v[Len(toks[i].v)]))

(***************************************************************************)
(* Reference tree builder (pushdown)                                       *)
(***************************************************************************)
Node(f) == <<f.tag, f.data, f.kids>>
Attach(s, o, n) == IF s = <<>> THEN [s |-> s, o |-> Append(o, n)]
                   ELSE [s |-> [s EXCEPT ![Len(s)].kids = Append(@, n)], o |-> o]
IsLeaf(f) == f.data # <<>>
St0 == [s |-> <<>>, o |-> <<>>, err |-> ""]
CloseLeaf(st) == IF st.s # <<>> /\ IsLeaf(st.s[Len(st.s)])
                 THEN LET r == Attach(SubSeq(st.s, 1, Len(st.s) - 1), st.o, Node(st.s[Len(st.s)])) IN
                      [st EXCEPT !.s = r.s, !.o = r.o]
                 ELSE st
Err(st, why) == [st EXCEPT !.err = why]
Step(st, tok) ==
  IF st.err # "" THEN st
  ELSE CASE tok.k = "S" -> LET s1 == CloseLeaf(st) IN
                           IF s1.s = <<>> /\ s1.o # <<>> THEN Err(st, "second root")
                           ELSE [s1 EXCEPT !.s = Append(@, [tag |-> tok.v, data |-> <<>>, kids |-> <<>>])]
         [] tok.k \in {"D", "C"} ->
              IF st.s # <<>> /\ st.s[Len(st.s)].kids = <<>> /\ ~IsLeaf(st.s[Len(st.s)]) /\ tok.v # <<>>
              THEN [st EXCEPT !.s[Len(st.s)].data = tok.v]
              ELSE Err(st, "stray text")
         [] tok.k = "E" -> LET s1 == IF st.s # <<>> /\ IsLeaf(st.s[Len(st.s)]) /\ st.s[Len(st.s)].tag # tok.v
                                     THEN CloseLeaf(st) ELSE st IN
                           IF s1.s # <<>> /\ s1.s[Len(s1.s)].tag = tok.v
                           THEN LET r == Attach(SubSeq(s1.s, 1, Len(s1.s) - 1), s1.o, Node(s1.s[Len(s1.s)])) IN
                                [s1 EXCEPT !.s = r.s, !.o = r.o]
                           ELSE Err(st, "mismatched end tag")
         [] OTHER -> Err(st, "lexical")
Bad(why) == [ok |-> FALSE, why |-> why, tree |-> <<>>]
Parse(toks) == LET st == CloseLeaf(FoldLeft(Step, St0, toks)) IN
               IF st.err # "" THEN Bad(st.err)
               ELSE IF st.s # <<>> THEN Bad("unclosed")
               ELSE IF Len(st.o) # 1 THEN Bad("no root")
               ELSE [ok |-> TRUE, why |-> "", tree |-> st.o[1]]
ParseText(txt) == Parse(Lex(txt))

(***************************************************************************)
(* Independent grammar:  elem ::= S(n) (D|C) [E(n)]  |  S(n) elem* E(n)    *)
(* Derive(toks, i) = set of <<tree, next index>> for an element at i       *)
(***************************************************************************)
RECURSIVE Derive(_, _), Kids(_, _)
\* Kids(toks, i): set of <<sequence of trees, next index>> for zero or more elements from i
Kids(toks, i) ==
  {<< <<>>, i >>} \cup
  UNION {{<< <<e[1]>> \o r[1], r[2] >> : r \in Kids(toks, e[2])} : e \in Derive(toks, i)}
Derive(toks, i) ==
  IF i > Len(toks) \/ toks[i].k # "S" THEN {}
  ELSE LET n == toks[i].v IN
       (IF i + 1 <= Len(toks) /\ toks[i + 1].k \in {"D", "C"} /\ toks[i + 1].v # <<>>
        THEN {<< <<n, toks[i + 1].v, <<>> >>, i + 2 >>} \cup
             (IF i + 2 <= Len(toks) /\ toks[i + 2] = [k |-> "E", v |-> n]
              THEN {<< <<n, toks[i + 1].v, <<>> >>, i + 3 >>} ELSE {})
        ELSE {}) \cup
       {<< <<n, <<>>, ks[1]>>, ks[2] + 1 >> :
           ks \in {x \in Kids(toks, i + 1) : x[2] <= Len(toks) /\ toks[x[2]] = [k |-> "E", v |-> n]}}
Documents(toks) == {e[1] : e \in {x \in Derive(toks, 1) : x[2] = Len(toks) + 1}}

\* an element directly inside an element of the same name (never the case in OFX)
RECURSIVE SameTagNesting(_)
SameTagNesting(t) == \E i \in 1..Len(t[3]) : t[3][i][1] = t[1] \/ SameTagNesting(t[3][i])

(***************************************************************************)
(* Writer: token stream of a tree under per-node choices, and its text     *)
(* uniform choices                                                         *)
(***************************************************************************)
RECURSIVE Tokens(_, _, _)
\* closeLeaf, cdata: BOOLEAN choices applied to every leaf (all per-node mixtures are covered at
\* token level by the grammar: the renderings of T are exactly the streams deriving T)
Tokens(t, closeLeaf, cdata) ==
  IF t[2] # <<>>
  THEN <<[k |-> "S", v |-> t[1]], [k |-> IF cdata THEN "C" ELSE "D", v |-> t[2]]>> \o
       (IF closeLeaf THEN <<[k |-> "E", v |-> t[1]]>> ELSE <<>>)
  ELSE <<[k |-> "S", v |-> t[1]]>> \o
       FoldLeft(LAMBDA acc, kid : acc \o Tokens(kid, closeLeaf, cdata), <<>>, t[3]) \o
       <<[k |-> "E", v |-> t[1]]>>

TokText(tok) == CASE tok.k = "S" -> <<LT>> \o tok.v \o <<GT>>
                  [] tok.k = "E" -> <<LT, SLASH>> \o tok.v \o <<GT>>
                  [] tok.k = "D" -> tok.v
                  [] tok.k = "C" -> CDOPEN \o tok.v \o CDCLOSE
                  [] OTHER -> <<LT>>
\* white space between tokens: ws(i) is the text put before token i (and after the last one for i = n+1)
PrintToks(toks, ws(_)) == FoldLeft(LAMBDA acc, i : acc \o ws(i) \o TokText(toks[i]), <<>>, [i \in 1..Len(toks) |-> i])
                      \o ws(Len(toks) + 1)
=============================================================================
