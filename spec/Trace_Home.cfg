SPECIFICATION Spec
POSTCONDITION Consumed
