------------------------------ MODULE Trace_SecIds ------------------------------
(***************************************************************************)
(* Code -> spec for the security identifier utilities (C20).  AgencyData is *)
(* generated from ofxtools.lib at every run.                               *)
(***************************************************************************)
EXTENDS SecIds, TraceBase, AgencyData

VARIABLE l
AllAlnum(s) == \A i \in 1..Len(s) : IsAlnum(s[i])
Upper(s) == \A i \in 1..Len(s) : ~IsLower(s[i])

Judge(e) ==
  CASE e.op = "cusip_checksum" ->
         IF CusipBaseOK(e.base) /\ Upper(e.base) THEN << <<"cusip-check-digit", e.out.ok /\ e.out.s = CusipCheck(e.base)>> >> ELSE <<>>
    [] e.op = "sedol_checksum" ->
         IF SedolBaseOK(e.base) /\ Upper(e.base) THEN << <<"sedol-check-digit", e.out.ok /\ e.out.s = SedolCheck(e.base)>> >> ELSE <<>>
    [] e.op = "isin_checksum" ->
         IF IsinBaseOK(e.base, LibAgencies) /\ Upper(e.base) THEN << <<"isin-check-digit", e.out.ok /\ e.out.s = IsinCheck(e.base)>> >> ELSE <<>>
    [] e.op = "validate_cusip" ->
         << <<"cusip-valid-passes", (ValidCusip(e.ident) /\ Upper(e.ident)) => (e.out.ok /\ e.out.b)>>,
            <<"cusip-invalid-fails", ~ValidCusip(e.ident) => ~(e.out.ok /\ e.out.b)>> >>
    [] e.op = "validate_isin" ->
         << <<"isin-valid-passes", (ValidIsin(e.ident, LibAgencies) /\ Upper(e.ident)) => (e.out.ok /\ e.out.b)>>,
            <<"isin-invalid-fails", ~ValidIsin(e.ident, LibAgencies) => ~(e.out.ok /\ e.out.b)>> >>
    [] e.op = "cusip2isin" ->
         << <<"cusip2isin-value", (ValidCusip(e.ident) /\ AllAlnum(e.ident) /\ Upper(e.ident) /\ e.nation \in LibAgencies) =>
                 (e.out.ok /\ e.out.s = Cusip2Isin(e.ident, e.nation) /\ ValidIsin(e.out.s, LibAgencies)
                  /\ SubSeq(e.out.s, 3, 11) = e.ident)>>,
            <<"cusip2isin-refuses-invalid", (~ValidCusip(e.ident) \/ e.nation \notin LibAgencies) => ~e.out.ok>> >>
    [] e.op = "sedol2isin" ->
         << <<"sedol2isin-value", (ValidSedol(e.ident) /\ Upper(e.ident) /\ e.nation \in LibAgencies) =>
                 (e.out.ok /\ e.out.s = Sedol2Isin(e.ident, e.nation) /\ ValidIsin(e.out.s, LibAgencies)
                  /\ SubSeq(e.out.s, 5, 11) = e.ident)>>,
            <<"sedol2isin-refuses-invalid", (Len(e.ident) # 7 \/ (SedolBaseOK(SubSeq(e.ident, 1, 6)) /\ ~ValidSedol(e.ident))) => ~e.out.ok>> >>
    [] e.op = "sedol_block" ->    \* digits-only bases start .. start+Len(outs)-1, one check digit each
         << <<"sedol-block", \A i \in 1..Len(e.outs) : <<e.outs[i]>> = SedolCheck(Pad(e.start + i - 1, 6))>> >>
    [] e.op = "cusip_block" ->
         << <<"cusip-block", \A i \in 1..Len(e.outs) : <<e.outs[i]>> = CusipCheck(e.prefix \o Pad(e.start + i - 1, 4))>> >>

Init == l = 1
Next == l <= Len(Log) /\ Report(Log[l].id, Judge(Log[l])) /\ l' = l + 1
Spec == Init /\ [][Next]_l
=============================================================================
