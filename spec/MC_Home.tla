------------------------------ MODULE MC_Home ------------------------------
(***************************************************************************)
(* Theorems of OFXHome over small domains, as invariants of a one-state-per*)
(* -case walk (seed states, then successors - no big initial-state sets).  *)
(***************************************************************************)
EXTENDS OFXHome, Json
Alpha == {38, 60, 62, 59, 97, 32}                 \* & < > ; a blank
Frag == {<<>>, <<97>>, <<38>>, <<60>>, <<62>>, <<32>>, E_AMP, E_LT, E_GT, <<38, 97>>, <<59>>, <<160>>}
VARIABLES a, b, c
vars == <<a, b, c>>
Init == a = <<>> /\ b = <<>> /\ c = <<>>
Next == \E x \in Frag, y \in Frag, z \in Frag : a' = x /\ b' = y /\ c' = z
Spec == Init /\ [][Next]_vars
T == a \o b \o c
\* un-escaping undoes escaping, and is the identity on texts without '&'
UnescapeInverts == SaxUnescape(SaxEscape(T)) = T
UnescapeLeavesPlain == (\A i \in 1..Len(T) : T[i] # 38) => SaxUnescape(T) = T
\* a field is never padded, and an element that holds only white space is the empty string, not None
FieldStripped == LET f == FieldStr(T) IN f.set => (f.s = <<>> \/ (f.s[1] \notin PyWS /\ f.s[Len(f.s)] \notin PyWS))
BlankIsEmptyNotNone == (T # <<>> /\ Strip(SaxUnescape(T)) = <<>>) => FieldStr(T) = Str(<<>>)
\* trust is monotone in age and strict at the boundary
Ages == {<<0, 0>>, <<86400, 0>>, <<86400, 1>>, <<7776000, 0>>, <<7776000, 1>>, <<7775999, 999999>>, <<9000000, 0>>}
Le(x, y) == x[1] < y[1] \/ (x[1] = y[1] /\ x[2] <= y[2])
TrustMonotone == \A f \in {"true", "false", "none"}, h \in BOOLEAN, d \in {-1, 0, 1, 90}, x \in Ages, y \in Ages :
                   (Le(x, y) /\ Invalid(f, h, x, d)) => Invalid(f, h, y, d)
BoundaryTrusted == ~Invalid("false", TRUE, <<7776000, 0>>, -1) /\ Invalid("false", TRUE, <<7776000, 1>>, -1)
                   /\ ~Invalid("false", TRUE, <<86400, 0>>, 1) /\ Invalid("false", TRUE, <<0, 1>>, 0)
\* OBSERVATION (expected to be violated): an institution whose failure flag is unknown is never trusted
UnknownFlagUntrusted == (a = a) => Invalid("none", TRUE, <<0, 0>>, -1)
Emit == PrintT("TXT " \o ToJson([t |-> T]))
=============================================================================
