------------------------------ MODULE MC_GetConfig ------------------------------
(***************************************************************************)
(* Histories of ofxget runs on one configuration file (C18), small domain: *)
(* 2 servers, 3 options (one of them looked up at OFX Home), 3 values.     *)
(* Two write rules: "ref" (store what is needed, drop what is not) and     *)
(* "keep" (the rule the library had: never drop a stored value) - TLC      *)
(* shows Persist for the former and produces the counterexample for the    *)
(* latter.                                                                 *)
(***************************************************************************)
EXTENDS OFXGetConfig, Json
CONSTANTS MaxRuns, Rule

Servers == {"s1", "s2"}
Opts == {"url", "version", "user"}
A == <<97>>  B == <<98>>  D == <<100>>
Vals == {A, B, D}
Dflt == [url |-> Null, version |-> D, user |-> Null]
FiDb == [s1 |-> [url |-> A, version |-> Null, user |-> Null, ofxhome |-> Null],
         s2 |-> [url |-> Null, version |-> B, user |-> Null, ofxhome |-> <<49>>]]
Home == <<[id |-> <<49>>, url |-> B, org |-> A, fid |-> A, brokerid |-> Null]>>

VARIABLES file, last, runs, uid, nextuid, hist
vars == <<file, last, runs, uid, nextuid, hist>>
View == <<file, last, runs, uid, nextuid>>      \* the history variable only serves the emission of behaviours
EmptySect == [o \in Opts |-> Null]
Init == /\ file = [s \in Servers |-> EmptySect]
        /\ last = [srv |-> "s1", eff |-> EmptySect, wrote |-> FALSE, dry |-> FALSE, cli |-> EmptySect]
        /\ runs = 0 /\ uid = Null /\ nextuid = 1 /\ hist = <<>>
Eff(srv, cli, f) == [o \in Opts |-> Effective(srv, cli, f, FiDb, Home, Dflt, o)]
Stored(srv, eff, f) ==
  [o \in Opts |->
     LET others == WhatOthersGive(srv, FiDb, Home, Dflt, f, o) IN
     CASE Rule = "ref"  -> IF eff[o] # Null /\ eff[o] # others THEN eff[o] ELSE Null
       [] Rule = "keep" -> IF eff[o] # Null /\ eff[o] # others THEN eff[o] ELSE f[srv][o]]
Run(srv, cli, write, dry) ==
  /\ runs < MaxRuns /\ runs' = runs + 1
  /\ hist' = Append(hist, [srv |-> srv, cli |-> cli, write |-> write, dry |-> dry])
  /\ LET eff == Eff(srv, cli, file) IN
     /\ last' = [srv |-> srv, eff |-> eff, wrote |-> write /\ ~dry, dry |-> dry, cli |-> cli]
     /\ IF write /\ ~dry
        THEN /\ file' = [file EXCEPT ![srv] = Stored(srv, eff, file)]
             /\ uid' = IF uid = Null THEN <<nextuid>> ELSE uid
             /\ nextuid' = nextuid + 1
        ELSE UNCHANGED <<file, uid, nextuid>>
Next == \E srv \in Servers : \E cli \in [Opts -> Vals \cup {Null}] : \E write \in BOOLEAN : \E dry \in BOOLEAN : Run(srv, cli, write, dry)
Spec == Init /\ [][Next]_vars

Precedence == \A o \in Opts : last.cli[o] # Null => last.eff[o] = last.cli[o]
Persist == last.wrote => \A o \in Opts : Restored(last.srv, file, FiDb, Home, Dflt, o) = last.eff[o]
DryStoresNothing == [][last'.dry => file' = file]_vars
NoWriteStoresNothing == [][~last'.wrote => file' = file]_vars
UidStable == [][uid # Null => uid' = uid]_vars
OtherServersUntouched == [][\A s \in Servers : s # last'.srv => file'[s] = file[s]]_vars
\* behaviours for replay on the real ofxget (simulation mode)
Emit == (runs = MaxRuns) => PrintT("HIST " \o ToJson([hist |-> hist, file |-> file, uid |-> uid]))
=============================================================================
