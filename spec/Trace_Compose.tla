------------------------------ MODULE Trace_Compose ------------------------------
(***************************************************************************)
(* Code -> spec for request composition (C06, C19): the bytes returned by  *)
(* a dry run are read by the specification (OFXFile) and the clauses of    *)
(* OFXCompose are evaluated on the resulting instance.                     *)
(*   e.call: "statements" | "accounts" | "profile" | "tax" | "refuse"      *)
(***************************************************************************)
EXTENDS OFXFile, OFXCompose, TraceBase

VARIABLE l
Anonymous == <<97, 110, 111, 110, 121, 109, 111, 117, 115>> \o [i \in 1..23 |-> 48]    \* "anonymous" padded with zeros to 32

FileClauses(e, r) ==
  << <<"request-well-formed " \o (IF r.st = "ok" THEN "" ELSE r.why), r.st = "ok">> >> \o
  (IF r.st # "ok" THEN <<>> ELSE
   << <<"header-version", Num(r.f.version) = e.cfg.version /\ r.kind = (IF e.cfg.version < 200 THEN 1 ELSE 2)>>,
      <<"valid-document " \o r.run.why, r.run.verdict = "accept">>,
      <<"wire-clean", r.clean>>,
      <<"lexically-valid", r.run.lexok>>,
      <<"parsed-back-by-library", e.back.ok>>,
      <<"library-reads-same-model", (e.back.ok /\ r.run.verdict = "accept") => e.back.inst = r.run.inst>> >>)

Judge(e) ==
  IF e.call = "refuse"      \* a 2xx version must refuse to omit end tags
  THEN << <<"v2-refuses-unclosed-elements", ~e.wrote>> >>
  ELSE IF ~e.wrote THEN << <<"request-composed " \o e.exc, FALSE>> >>
  ELSE LET r == ReadFile(e.file) IN
       FileClauses(e, r) \o
       (IF r.st # "ok" \/ r.run.verdict # "accept" THEN <<>>
        ELSE LET inst == r.run.inst IN
          CASE e.call = "statements" ->
                 SignonClauses(inst, e.cfg, e.cfg.userid, e.password) \o StatementClauses(inst, e.cfg, e.reqs)
            [] e.call = "accounts" ->
                 SignonClauses(inst, e.cfg, e.cfg.userid, e.password) \o
                 << <<"acctinfo-one-wrapper", Len(Members(inst, "signupmsgsrqv1")) = 1 /\ Len(AllWrappers(inst)) = 1>>,
                    <<"acctinfo-dtacctup", At(Members(inst, "signupmsgsrqv1")[1], <<"acctinforq", "dtacctup">>) = e.dtacctup>> >>
            [] e.call = "profile" ->
                 SignonClauses(inst, e.cfg, Anonymous, Anonymous) \o
                 << <<"profile-one-wrapper", Len(Members(inst, "profmsgsrqv1")) = 1 /\ Len(AllWrappers(inst)) = 1>>,
                    <<"profile-request", At(Members(inst, "profmsgsrqv1")[1], <<"profrq", "clientrouting">>) = Str(<<78, 79, 78, 69>>)>> >>
            [] e.call = "select" -> SelectionClauses(inst, e.sel)
            [] e.call = "tax" ->
                 SignonClauses(inst, e.cfg, e.cfg.userid, e.password) \o
                 << <<"tax-one-wrapper", Len(Members(inst, "tax1099msgsrqv1")) = 1 /\ Len(AllWrappers(inst)) = 1>>,
                    <<"tax-years", LET rq == At(Members(inst, "tax1099msgsrqv1")[1], <<"tax1099rq">>) IN
                                   IsInst(rq) /\ rq.mem = e.years>>,
                    <<"tax-acctnum", At(Members(inst, "tax1099msgsrqv1")[1], <<"tax1099rq", "acctnum">>) = OptStr(e.acctnum)>>,
                    <<"tax-recid", At(Members(inst, "tax1099msgsrqv1")[1], <<"tax1099rq", "recid">>) = OptStr(e.recid)>> >>)

Init == l = 1
Next == l <= Len(Log) /\ Report(Log[l].id, Judge(Log[l])) /\ l' = l + 1
Spec == Init /\ [][Next]_l
=============================================================================
