------------------------------ MODULE MC_Net ------------------------------
(***************************************************************************)
(* All histories of up to MaxCalls calls by the clients (C14) and the      *)
(* invariants of the property; behaviours are emitted for replay.          *)
(***************************************************************************)
EXTENDS OFXNet, TLC, Json
CONSTANTS Clients, MaxCalls, NoPersist

VARIABLES adv, sets, jar, issued, next, sent, calls
vars == <<adv, sets, jar, issued, next, sent, calls>>
Init == /\ adv \in Hosts /\ sets \in [Hosts -> BOOLEAN]
        /\ jar = [c \in Clients |-> [h \in Hosts |-> 0]]
        /\ issued = <<>> /\ next = 1 /\ sent = <<>> /\ calls = <<>>
Call(c, kind, mode) ==
  /\ Len(calls) < MaxCalls
  /\ LET st == Posts([jar |-> jar, issued |-> issued, next |-> next, sent |-> sent], c, kind, mode, adv, sets, NoPersist) IN
     /\ jar' = st.jar /\ issued' = st.issued /\ next' = st.next /\ sent' = st.sent
  /\ calls' = Append(calls, [client |-> c, kind |-> kind, mode |-> mode, nsent |-> Len(sent')])
  /\ UNCHANGED <<adv, sets>>
Next == \E c \in Clients : \E k \in Kinds : \E m \in Modes : Call(c, k, m)
Spec == Init /\ [][Next]_vars

NoPostOnDryRun == [][\A c \in Clients : \A k \in Kinds : Call(c, k, "dry") => sent' = sent]_vars
OnePostPerRequest == [][\A c \in Clients : \A k \in Kinds : \A m \in Modes : Call(c, k, m) =>
                          Len(sent') - Len(sent) = (IF m = "dry" THEN 0 ELSE IF k = "profile" \/ m = "skip" THEN 1 ELSE 2)]_vars
ProfileIsAnonymous == \A i \in 1..Len(sent) : (sent[i].kind = "profile") <=> (sent[i].creds = "anon")
ProfileGoesToConfiguredUrl == \A i \in 1..Len(sent) : sent[i].kind = "profile" => sent[i].host = "cfg"
\* credentials travel only to the advertised URL, or to the configured one when the lookup was skipped
CredentialsOnlyWhereAllowed ==
  \A i \in 1..Len(sent) : sent[i].creds = "user" => (sent[i].host = adv \/ (sent[i].mode = "skip" /\ sent[i].host = "cfg"))
\* a cookie value issued to client a for host h appears only in requests of a to h
CookieIsolation == \A i \in 1..Len(sent) : sent[i].cookie # 0 => issued[sent[i].cookie] = <<sent[i].client, sent[i].host>>
\* a cookie a server set is replayed on the same client's next request to that host
CookieReplay == \A i \in 1..Len(sent) : \A j \in 1..(i - 1) :
                  (sent[j].client = sent[i].client /\ sent[j].host = sent[i].host /\ sets[sent[i].host] /\ sent[i].client \notin NoPersist)
                     => sent[i].cookie # 0
\* a client that does not persist cookies never sends one
NonPersistingSendsNone == \A i \in 1..Len(sent) : sent[i].client \in NoPersist => sent[i].cookie = 0
Emit == (Len(calls) = MaxCalls) => PrintT("BEH " \o ToJson([adv |-> adv, sets |-> sets, calls |-> calls, sent |-> sent, nop |-> NoPersist]))
=============================================================================
