------------------------------ MODULE SecIds ------------------------------
(***************************************************************************)
(* Security identifier check digits from the published algorithms:         *)
(*   CUSIP  - "modulus 10 double add double" over 8 characters, with the   *)
(*            special characters * @ # valued 36 37 38;                    *)
(*   SEDOL  - weighted sum, weights 1 3 1 7 3 9;                           *)
(*   ISIN   - letters expanded to two digits, Luhn from the right.         *)
(* Identifiers are code point sequences.                                   *)
(***************************************************************************)
EXTENDS OFXText

CharVal(c) == IF IsDigit(c) THEN c - 48
              ELSE IF IsUpper(c) THEN c - 55
              ELSE IF IsLower(c) THEN c - 87
              ELSE IF c = 42 THEN 36 ELSE IF c = 64 THEN 37 ELSE IF c = 35 THEN 38 ELSE -1
IsAlnum(c) == IsDigit(c) \/ IsUpper(c) \/ IsLower(c)
CheckOf(sum) == <<((10 - (sum % 10)) % 10) + 48>>
SumSeq(s) == FoldLeft(LAMBDA a, b : a + b, 0, s)

\* ---- CUSIP: every second character (2nd, 4th, ...) is doubled; the digits of each product are added
CusipBaseOK(b) == Len(b) = 8 /\ \A i \in 1..8 : CharVal(b[i]) >= 0
CusipCheck(b) == CheckOf(SumSeq([i \in 1..8 |->
                   LET v == IF i % 2 = 0 THEN 2 * CharVal(b[i]) ELSE CharVal(b[i]) IN (v \div 10) + (v % 10)]))
ValidCusip(id) == Len(id) = 9 /\ CusipBaseOK(SubSeq(id, 1, 8)) /\ CusipCheck(SubSeq(id, 1, 8)) = <<id[9]>>

\* ---- SEDOL
SedolWeights == <<1, 3, 1, 7, 3, 9>>
IsVowel(c) == c \in {65, 69, 73, 79, 85}
SedolBaseOK(b) == Len(b) = 6 /\ \A i \in 1..6 : IsAlnum(b[i]) /\ ~IsVowel(b[i])
SedolCheck(b) == CheckOf(SumSeq([i \in 1..6 |-> CharVal(b[i]) * SedolWeights[i]]))
ValidSedol(id) == Len(id) = 7 /\ SedolBaseOK(SubSeq(id, 1, 6)) /\ SedolCheck(SubSeq(id, 1, 6)) = <<id[7]>>

\* ---- ISIN: expand, then Luhn (the rightmost expanded digit is doubled, then every other one)
Expand(b) == FoldLeft(LAMBDA acc, c : LET v == CharVal(c) IN
                        IF v >= 10 THEN acc \o <<v \div 10, v % 10>> ELSE Append(acc, v), <<>>, b)
IsinBaseOK(b, agencies) == Len(b) = 11 /\ (\A i \in 1..11 : IsAlnum(b[i])) /\ SubSeq(b, 1, 2) \in agencies
IsinCheck(b) == LET e == Expand(b) n == Len(e) IN
                CheckOf(SumSeq([i \in 1..n |->
                   LET v == IF (n - i) % 2 = 0 THEN 2 * e[i] ELSE e[i] IN (v \div 10) + (v % 10)]))
ValidIsin(id, agencies) == Len(id) = 12 /\ IsinBaseOK(SubSeq(id, 1, 11), agencies)
                           /\ IsinCheck(SubSeq(id, 1, 11)) = <<id[12]>>

Cusip2Isin(cusip, nation) == LET b == nation \o cusip IN b \o IsinCheck(b)
Sedol2Isin(sedol, nation) == LET b == nation \o <<48, 48>> \o sedol IN b \o IsinCheck(b)
=============================================================================
