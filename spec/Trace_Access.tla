------------------------------ MODULE Trace_Access ------------------------------
(***************************************************************************)
(* Code -> spec for flat access, shortcuts, and copy / pickle (C16).       *)
(***************************************************************************)
EXTENDS OFXAccess, TraceBase

VARIABLE l

RECURSIVE Plain(_)
Plain(inst) == [cls |-> inst.cls,
                els |-> [i \in 1..Len(inst.els) |-> <<inst.els[i][1], IF IsInst(inst.els[i][2]) THEN Plain(inst.els[i][2]) ELSE inst.els[i][2]>>],
                mem |-> [i \in 1..Len(inst.mem) |-> IF IsInst(inst.mem[i]) THEN Plain(inst.mem[i]) ELSE inst.mem[i]]]
Judge(e) ==
  CASE e.op = "getattr" ->
         LET r == Lookup(e.inst, e.name) IN
         \* (whatever the name resolves to: looking it up never fails with anything but AttributeError, so that hasattr and
         \* getattr with a default work on every instance)
         (IF e.shadowed \/ r.k # "open"
          THEN << <<"lookup-fails-only-with-AttributeError " \o e.inst.cls \o "." \o e.name,
                    e.out.k # "exception" /\ e.hasattr # "exception" /\ e.default # "exception">> >>
          ELSE <<>>) \o
         IF r.k = "open" \/ e.shadowed THEN <<>>
         ELSE << <<"flat-access " \o e.inst.cls \o "." \o e.name \o " expected " \o r.k, e.out = r>>,
                 <<"hasattr-agrees " \o e.inst.cls \o "." \o e.name, e.hasattr = (IF r.k # "attrerror" THEN "true" ELSE "false")>>,
                 <<"getattr-default " \o e.inst.cls \o "." \o e.name, (r.k = "attrerror") => e.default = "default">> >>
    [] e.op = "shortcut" ->
         LET r == Shortcut(e.inst, e.name) IN
         << <<"shortcut-fails-only-with-AttributeError " \o e.inst.cls \o "." \o e.name, e.out.k # "exception">> >> \o
         IF r.k = "open" THEN <<>>
         ELSE << <<"shortcut " \o e.inst.cls \o "." \o e.name \o " expected " \o r.k, e.out = r>>,
                 \* e.after: the receiver projected again after the call
                 <<"only-statements-staple " \o e.inst.cls \o "." \o e.name, ExtrasOK(e.after)>>,
                 <<"statements-staple-wrapper-ids " \o e.inst.cls, (e.name = "statements" /\ r.k = "nodes") => StapledAfter(e.after, r.ps)>>,
                 <<"shortcut-leaves-model " \o e.inst.cls \o "." \o e.name, Plain(e.after) = Plain(e.inst)>> >>
    [] e.op = "clone" ->
         << <<"clone-" \o e.how \o "-works " \o e.inst.cls, e.out.ok>>,
            <<"clone-" \o e.how \o "-equal " \o e.inst.cls, e.out.ok => e.out.inst = e.inst>> >>

Init == l = 1
Next == l <= Len(Log) /\ Report(Log[l].id, Judge(Log[l])) /\ l' = l + 1
Spec == Init /\ [][Next]_l
=============================================================================
