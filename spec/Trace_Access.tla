------------------------------ MODULE Trace_Access ------------------------------
(***************************************************************************)
(* Code -> spec for flat access, shortcuts, and copy / pickle (C16).       *)
(***************************************************************************)
EXTENDS OFXAccess, TraceBase

VARIABLE l

Judge(e) ==
  CASE e.op = "getattr" ->
         LET r == Lookup(e.inst, e.name) IN
         IF r.k = "open" \/ e.shadowed THEN <<>>
         ELSE << <<"flat-access " \o e.inst.cls \o "." \o e.name \o " expected " \o r.k, e.out = r>>,
                 <<"hasattr-agrees " \o e.inst.cls \o "." \o e.name, e.hasattr = (IF r.k # "attrerror" THEN "true" ELSE "false")>>,
                 <<"getattr-default " \o e.inst.cls \o "." \o e.name, (r.k = "attrerror") => e.default = "default">> >>
    [] e.op = "shortcut" ->
         LET r == Shortcut(e.inst, e.name) IN
         IF r.k = "open" THEN <<>>
         ELSE << <<"shortcut " \o e.inst.cls \o "." \o e.name \o " expected " \o r.k, e.out = r>> >>
    [] e.op = "clone" ->
         << <<"clone-" \o e.how \o "-works " \o e.inst.cls, e.out.ok>>,
            <<"clone-" \o e.how \o "-equal " \o e.inst.cls, e.out.ok => e.out.inst = e.inst>> >>

Init == l = 1
Next == l <= Len(Log) /\ Report(Log[l].id, Judge(Log[l])) /\ l' = l + 1
Spec == Init /\ [][Next]_l
=============================================================================
