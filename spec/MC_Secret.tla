------------------------------ MODULE MC_Secret ------------------------------
(***************************************************************************)
(* Model-checking instance of OFXSecret: all runs over 2 servers, 2        *)
(* passwords, every option combination, up to MaxRuns runs in a row.       *)
(* `hist` records the steps with their arguments for replay on the real    *)
(* ofxget (simulation mode, CONSTRAINT Emit); `refused` remembers whether  *)
(* the server refused the sign-on of an authenticated leg of the current   *)
(* run (for the observation StoredOnlyIfAccepted).                         *)
(***************************************************************************)
EXTENDS OFXSecret, Json
CONSTANTS MaxRuns
Servers == {"s1", "s2"}
Passwords == {"p1", "p2"}
VARIABLES st, hist, runs, refused
vars == <<st, hist, runs, refused>>

Runs == [srv : Servers, kind : Kinds, all : BOOLEAN, dry : BOOLEAN, cli : Passwords \cup {""}, save : BOOLEAN,
         nokr : BOOLEAN, write : BOOLEAN, skipprof : BOOLEAN, kr : {"ok", "broken", "absent"}]

Init == st = InitState(Servers) /\ hist = <<>> /\ runs = 0 /\ refused = FALSE
Begin == \E r \in Runs : /\ runs < MaxRuns /\ EnBegin(st, r) /\ st' = StBegin(st, r) /\ runs' = runs + 1 /\ refused' = FALSE
                         /\ hist' = Append(hist, [a |-> "begin", arg |-> "", run |-> r, leg |-> ""])
KrGet == EnKrGet(st) /\ st' = StKrGet(st) /\ UNCHANGED <<hist, runs, refused>>
Prompt == \E t \in Passwords \cup {""} : EnPrompt(st) /\ st' = StPrompt(st, t) /\ UNCHANGED <<runs, refused>>
                                         /\ hist' = Append(hist, [a |-> "prompt", arg |-> t, run |-> NoRun, leg |-> ""])
Post == \E acc \in BOOLEAN : /\ EnPost(st) /\ (Head(st.legs) = "profile" => acc) /\ st' = StPost(st, acc)
                             /\ refused' = (refused \/ ~acc) /\ UNCHANGED runs
                             /\ hist' = Append(hist, [a |-> "post", arg |-> IF acc THEN "accept" ELSE "refuse", run |-> NoRun, leg |-> Head(st.legs)])
PrintLeg == EnPrint(st) /\ st' = StPrint(st) /\ UNCHANGED <<hist, runs, refused>>
AuthFail == EnAuthFail(st) /\ st' = StAuthFail(st) /\ UNCHANGED <<hist, runs, refused>>
WriteCfg == EnWriteCfg(st) /\ st' = StWriteCfg(st) /\ UNCHANGED <<hist, runs, refused>>
KrSet == EnKrSet(st) /\ st' = StKrSet(st) /\ UNCHANGED <<hist, runs, refused>>
SaveSkip == EnSaveSkip(st) /\ st' = StSaveSkip(st) /\ UNCHANGED <<hist, runs, refused>>
End == EnEnd(st) /\ st' = StEnd(st) /\ UNCHANGED <<runs, refused>> /\ hist' = Append(hist, [a |-> "end", arg |-> "", run |-> NoRun, leg |-> ""])
Next == Begin \/ KrGet \/ Prompt \/ Post \/ PrintLeg \/ AuthFail \/ WriteCfg \/ KrSet \/ SaveSkip \/ End
Spec == Init /\ [][Next]_vars

AllStatesOK == StateOK(st)
AllStepsOK == [][StepOK(st, st')]_vars
\* the silent closure used by the trace specification is long enough: after Settle no silent step is enabled
SettleSettles == ~EnPrint(Settle(st)) /\ ~EnSaveSkip(Settle(st)) /\ ~EnAuthFail(Settle(st)) /\ ~EnWriteCfg(Settle(st))
\* a run always ends: from every state of a run End is reachable without choices by the environment running out
RunProgress == st.pc \notin {"idle"} => (EnKrGet(st) \/ EnPrompt(st) \/ EnPost(st) \/ EnPrint(st) \/ EnAuthFail(st) \/ EnWriteCfg(st) \/ EnKrSet(st) \/ EnSaveSkip(st) \/ EnEnd(st))
\* a dry run leaves the keyring alone and asks nobody
DryRunInert == [][st.run.dry => (st'.store = st.store /\ st'.prompts = 0 /\ st'.gets = 0)]_vars
\* OBSERVATION (expected to be violated): what gets stored was accepted by the server
StoredOnlyIfAccepted == [][st'.store # st.store => ~refused]_vars
\* the history variable does not influence behaviour
View == <<st, runs, refused>>
Emit == (runs = MaxRuns /\ st.pc = "idle") => PrintT("HIST " \o ToJson([hist |-> hist]))
=============================================================================
