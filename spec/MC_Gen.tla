------------------------------ MODULE MC_Gen ------------------------------
(***************************************************************************)
(* Valid-mode instance generator over the live schema, driven by           *)
(* `tlc -simulate`: a document is built token by token; a child may be     *)
(* chosen only if no mandatory child is skipped, no exclusivity group is   *)
(* over-filled and the budgets allow it; an aggregate may close only when  *)
(* complete.  Classes with non-local extra rules are generated in a fixed  *)
(* legal shape.  Leaves carry their type id; the concretiser picks a text  *)
(* of that type and the specification (Conv) assigns its value.            *)
(* Faults are not part of this machine: they are applied afterwards as     *)
(* single mutations, so random walks never die early.                      *)
(***************************************************************************)
EXTENDS OFXAggregate, Json
CONSTANTS MaxTok, MaxDepth, MaxList

Special == {"SONRQ", "EXTDPMT", "EXTDPAYEE", "TAX1099RS", "TAX1099R_V100", "CONTRIBSECURITY", "OFX", "ACCTINFO",
            "TAX1099MISC_V100"}
VARIABLES doc, stack, done
vars == <<doc, stack, done>>
GFrame(c) == [cls |-> c, idx |-> 0, plist |-> FALSE, seen |-> {}, nmem |-> 0]
GTop == stack[Len(stack)]
Groups(c) == Schema[c].om \cup Schema[c].rm
\* attribute j must be taken now or never
Must(f, j) == LET a == Attrs(f.cls)[j] IN
   \/ a.req
   \/ \E m \in Schema[f.cls].rm : a.a \in m /\ m \cap f.seen = {} /\ \A k \in (j + 1)..Len(Attrs(f.cls)) : Attrs(f.cls)[k].a \notin m
   \/ (f.cls \in MinOne /\ IsList(a) /\ f.nmem = 0 /\ \A k \in (j + 1)..Len(Attrs(f.cls)) : ~IsList(Attrs(f.cls)[k]))
NextMust(f) == LET S == {j \in (f.idx + 1)..Len(Attrs(f.cls)) : Must(f, j)} IN
               IF S = {} THEN Len(Attrs(f.cls)) + 1 ELSE CHOOSE j \in S : \A k \in S : j <= k
Allowed(f, j) ==
  LET a == Attrs(f.cls)[j] IN
  /\ a.k # "unsup"
  /\ (j > f.idx \/ (IsList(a) /\ f.plist /\ \A k \in j..f.idx : IsList(Attrs(f.cls)[k])))
  /\ j <= NextMust(f)
  /\ \A m \in Groups(f.cls) : a.a \in m => m \cap f.seen = {}
  /\ (IsList(a) => f.nmem < MaxList)
  /\ (f.cls \in Special => \/ Must(f, j)
                           \/ (f.cls = "SONRQ" /\ a.a \in {"userid", "userpass"})
                           \/ (f.cls = "EXTDPMT" /\ a.a = "extdpmtdsc")
                           \/ (f.cls = "CONTRIBSECURITY" /\ a.a = "pretaxcontribpct")
                           \/ (f.cls = "TAX1099RS" /\ a.a = "tax1099misc_v100" /\ f.nmem = 0)
                           \/ (f.cls = "ACCTINFO" /\ a.a = "bankacctinfo" /\ f.nmem = 0))
  /\ (Len(doc) < MaxTok \/ Must(f, j))
  /\ (a.k \in {"sub", "lagg"} => (Len(stack) < MaxDepth \/ Must(f, j)))
Advance(f, j) == LET a == Attrs(f.cls)[j] IN
                 [f EXCEPT !.idx = j, !.plist = IsList(a), !.seen = IF IsList(a) THEN @ ELSE @ \cup {a.a},
                           !.nmem = IF IsList(a) THEN @ + 1 ELSE @]
CanClose(f) == /\ NextMust(f) = Len(Attrs(f.cls)) + 1
               /\ (f.cls = "SONRQ" => {"userid", "userpass"} \subseteq f.seen)
               /\ (f.cls = "EXTDPMT" => "extdpmtdsc" \in f.seen)
               /\ (f.cls = "CONTRIBSECURITY" => "pretaxcontribpct" \in f.seen)
               /\ (f.cls \in {"TAX1099RS", "ACCTINFO"} => f.nmem > 0)
GTok(e, tag, ty) == [e |-> e, tag |-> tag, ty |-> ty]
Init == /\ \E c \in Classes : stack = <<GFrame(c)>> /\ doc = <<GTok("open", c, "")>>
        /\ done = FALSE
Child(j) == /\ ~done /\ stack # <<>> /\ j <= Len(Attrs(GTop.cls)) /\ Allowed(GTop, j)
            /\ LET a == Attrs(GTop.cls)[j] IN
               IF a.k \in {"sub", "lagg"}
               THEN /\ doc' = Append(doc, GTok("open", a.tag, ""))
                    /\ stack' = Append([stack EXCEPT ![Len(stack)] = Advance(GTop, j)], GFrame(a.cls))
               ELSE /\ doc' = Append(doc, GTok("leaf", a.tag, a.ty))
                    /\ stack' = [stack EXCEPT ![Len(stack)] = Advance(GTop, j)]
            /\ UNCHANGED done
CloseAgg == /\ ~done /\ stack # <<>> /\ CanClose(GTop)
            /\ doc' = Append(doc, GTok("close", "", ""))
            /\ stack' = SubSeq(stack, 1, Len(stack) - 1)
            /\ done' = (Len(stack) = 1)
Next == (\E j \in 1..40 : Child(j)) \/ CloseAgg
Spec == Init /\ [][Next]_vars
Emit == done => PrintT("DOC " \o ToJson(doc))
\* the generator only produces documents the document machine accepts (checked on the abstract document with
\* sample texts): a model-level theorem that keeps generator and machine consistent
GenAccepted == done => LET d == [i \in 1..Len(doc) |->
                                  IF doc[i].e = "leaf" THEN LeafTok(doc[i].tag, SampleText[doc[i].ty])
                                  ELSE IF doc[i].e = "open" THEN OpenTok(doc[i].tag) ELSE CloseTok] IN
                           RunDoc(d).verdict = "accept"
=============================================================================
