------------------------------ MODULE OFXTypes ------------------------------
(***************************************************************************)
(* OFX element data types (OFX 3.2.8): for every type                      *)
(*   Lexical(ty, text)  - the texts the OFX notation admits on output      *)
(*   Conv(ty, text)     - value denoted by a text, RejectV, or UnjudgedV   *)
(*   Unconv(ty, value)  - canonical text, or RefuseV                       *)
(* Type descriptor ty = [k, len, scale, valid, req]; len/scale = -1: none. *)
(* Values are tagged records:                                              *)
(*   [t |-> "none"] [t |-> "bool", b] [t |-> "str", s]                     *)
(*   [t |-> "int", neg, d]            d: digit sequence without lead zeros *)
(*   [t |-> "dec", neg, d, exp]       coefficient digits and exponent      *)
(*   [t |-> "dt", day, ms]            UTC: days since 1970-01-01, ms of day*)
(*   [t |-> "time", ms]               UTC ms of day                        *)
(* UnjudgedV marks texts the properties leave open (see DESIGN 3.2).       *)
(***************************************************************************)
EXTENDS OFXText

NoneV == [t |-> "none"]
RejectV == [t |-> "reject"]
UnjudgedV == [t |-> "unjudged"]
RefuseV == [t |-> "refuse"]

Ty(k, len, scale, valid, req) == [k |-> k, len |-> len, scale |-> scale, valid |-> valid, req |-> req]

HasNonAscii(s) == \E i \in 1..Len(s) : s[i] > 127
HasWS(s) == \E i \in 1..Len(s) : IsWS(s[i])
EdgeWS(s) == s # <<>> /\ (IsWS(s[1]) \/ IsWS(s[Len(s)]))

(***************************************************************************)
(* Integers                                                                *)
(***************************************************************************)
IntLexical(s) == LET b == IF s # <<>> /\ s[1] \in {PLUS, MINUS} THEN Tail(s) ELSE s IN
                 b # <<>> /\ AllDigits(b)
IntValue(s) == LET neg == s[1] = MINUS
                   b == IF s[1] \in {PLUS, MINUS} THEN Tail(s) ELSE s
                   d == Digits(b) IN
               [t |-> "int", neg |-> neg /\ ~IsZeroD(d), d |-> d]
IntWithin(v, len) == len = -1 \/ Len(v.d) <= len
IntUnjudged(s) == HasNonAscii(s) \/ HasWS(s) \/ \E i \in 1..Len(s) : s[i] = 95
ConvInt(ty, s) == IF IntUnjudged(s) THEN UnjudgedV
                  ELSE IF ~IntLexical(s) THEN RejectV
                  ELSE IF IntWithin(IntValue(s), ty.len) THEN IntValue(s) ELSE RejectV
IntText(v) == (IF v.neg THEN <<MINUS>> ELSE <<>>) \o DigitsText(v.d)

(***************************************************************************)
(* Decimals: sign, digits, at most one separator '.' or ','                *)
(***************************************************************************)
IsSep(c) == c \in {DOT, COMMA}
DecBody(s) == IF s # <<>> /\ s[1] \in {PLUS, MINUS} THEN Tail(s) ELSE s
DecLexical(s) ==
  LET b == DecBody(s)
      seps == {i \in 1..Len(b) : IsSep(b[i])} IN
  /\ b # <<>>
  /\ \A i \in 1..Len(b) : IsDigit(b[i]) \/ IsSep(b[i])
  /\ Cardinality(seps) <= 1
  /\ \E i \in 1..Len(b) : IsDigit(b[i])
DecValue(s) ==
  LET neg == s[1] = MINUS
      b == DecBody(s)
      seps == {i \in 1..Len(b) : IsSep(b[i])}
      p == IF seps = {} THEN 0 ELSE CHOOSE i \in seps : TRUE
      ip == IF p = 0 THEN b ELSE SubSeq(b, 1, p - 1)
      fp == IF p = 0 THEN <<>> ELSE SubSeq(b, p + 1, Len(b)) IN
  [t |-> "dec", neg |-> neg, d |-> Digits(ip \o fp), exp |-> 0 - Len(fp)]

\* increment a digit sequence
RECURSIVE IncD(_)
IncD(d) == IF d = <<>> THEN <<1>>
           ELSE IF d[Len(d)] < 9 THEN [d EXCEPT ![Len(d)] = @ + 1]
           ELSE Append(IncD(SubSeq(d, 1, Len(d) - 1)), 0)
Zeros(n) == [i \in 1..n |-> 0]
\* quantize to `scale` decimal places, ties to even (decimal's default context)
Quantize(v, scale) ==
  LET target == 0 - scale IN
  IF v.exp >= target
  THEN [v EXCEPT !.d = StripZeros(v.d \o Zeros(v.exp - target)), !.exp = target]
  ELSE LET k == target - v.exp
           n == Len(v.d)
           q == IF k >= n THEN <<0>> ELSE SubSeq(v.d, 1, n - k)
           r == IF k > n THEN Zeros(k - n) \o v.d ELSE SubSeq(v.d, n - k + 1, n)
           restzero == \A i \in 2..Len(r) : r[i] = 0
           up == \/ r[1] > 5
                 \/ (r[1] = 5 /\ ~restzero)
                 \/ (r[1] = 5 /\ restzero /\ q[Len(q)] % 2 = 1)
       IN [v EXCEPT !.d = IF up THEN StripZeros(IncD(q)) ELSE q, !.exp = target]
DecUnjudged(s) == \/ HasNonAscii(s) \/ HasWS(s)
                  \/ \E i \in 1..Len(s) : s[i] = 95
                  \/ /\ \E i \in 1..Len(s) : IsUpper(s[i]) \/ IsLower(s[i])
                     /\ \A i \in 1..Len(s) : (IsUpper(s[i]) \/ IsLower(s[i])) =>
                          s[i] \in {69, 101, 78, 110, 65, 97, 73, 105, 70, 102, 84, 116, 89, 121, 83, 115}
ConvDec(ty, s) == IF DecUnjudged(s) THEN UnjudgedV
                  ELSE IF ~DecLexical(s) THEN RejectV
                  ELSE IF ty.scale = -1 THEN DecValue(s) ELSE Quantize(DecValue(s), ty.scale)
\* plain notation, never an exponent
DecText(v) ==
  LET sign == IF v.neg THEN <<MINUS>> ELSE <<>>
      dt == DigitsText(v.d)
      n == Len(dt) IN
  IF v.exp >= 0 THEN (IF IsZeroD(v.d) THEN sign \o <<D0>> ELSE sign \o dt \o DigitsText(Zeros(v.exp)))
  ELSE LET f == 0 - v.exp IN
       IF n > f THEN sign \o SubSeq(dt, 1, n - f) \o <<DOT>> \o SubSeq(dt, n - f + 1, n)
       ELSE sign \o <<D0, DOT>> \o DigitsText(Zeros(f - n)) \o dt
\* numeric equality of two decimal values (used where the exponent cannot be kept)
DecSameNumber(a, b) ==
  LET e == IF a.exp < b.exp THEN a.exp ELSE b.exp
      da == StripZeros(a.d \o Zeros(a.exp - e))
      db == StripZeros(b.d \o Zeros(b.exp - e)) IN
  da = db /\ (a.neg = b.neg \/ IsZeroD(da))

(***************************************************************************)
(* Calendar                                                                *)
(***************************************************************************)
Leap(y) == (y % 4 = 0 /\ y % 100 # 0) \/ y % 400 = 0
DIM(y, m) == IF m = 2 THEN (IF Leap(y) THEN 29 ELSE 28) ELSE IF m \in {4, 6, 9, 11} THEN 30 ELSE 31
DaysFromCivil(y0, m, d) ==
  LET y == IF m <= 2 THEN y0 - 1 ELSE y0
      era == y \div 400
      yoe == y - era * 400
      mp == (m + 9) % 12
      doy == (153 * mp + 2) \div 5 + d - 1
      doe == yoe * 365 + yoe \div 4 - yoe \div 100 + doy
  IN era * 146097 + doe - 719468
\* independent second definition (used only by the model-level theorem): count days
DaysBeforeYear(y) == LET p == y - 1 IN p * 365 + p \div 4 - p \div 100 + p \div 400
RECURSIVE DaysBeforeMonth(_, _)
DaysBeforeMonth(y, m) == IF m = 1 THEN 0 ELSE DaysBeforeMonth(y, m - 1) + DIM(y, m - 1)
DayCount(y, m, d) == DaysBeforeYear(y) + DaysBeforeMonth(y, m) + (d - 1) - 719162
CivilFromDays(z0) ==
  LET z == z0 + 719468
      era == z \div 146097
      doe == z - era * 146097
      yoe == (doe - doe \div 1460 + doe \div 36524 - doe \div 146096) \div 365
      y == yoe + era * 400
      doy == doe - (365 * yoe + yoe \div 4 - yoe \div 100)
      mp == (5 * doy + 2) \div 153
      d == doy - (153 * mp + 2) \div 5 + 1
      m == IF mp < 10 THEN mp + 3 ELSE mp - 9
  IN [y |-> IF m <= 2 THEN y + 1 ELSE y, m |-> m, d |-> d]

(***************************************************************************)
(* Date-times and times                                                    *)
(***************************************************************************)
\* offset text -> [ok, judged, min]
Offset(o) ==
  LET sgn == IF o # <<>> /\ o[1] = MINUS THEN -1 ELSE 1
      body == IF o # <<>> /\ o[1] \in {PLUS, MINUS} THEN Tail(o) ELSE o
      dot == IndexOf(body, DOT)
      hh == IF dot = 0 THEN body ELSE SubSeq(body, 1, dot - 1)
      mm == IF dot = 0 THEN <<>> ELSE SubSeq(body, dot + 1, Len(body))
  IN IF HasNonAscii(o) \/ hh = <<>> THEN [ok |-> FALSE, judged |-> FALSE, min |-> 0]
     ELSE IF Len(hh) > 2 /\ AllDigits(hh) THEN [ok |-> FALSE, judged |-> FALSE, min |-> 0]   \* zero-padded beyond hh: left open
     ELSE IF Len(hh) \in 1..2 /\ AllDigits(hh) /\ (dot = 0 \/ (Len(mm) = 2 /\ AllDigits(mm)))
     THEN LET tot == sgn * (Num(hh) * 60 + Num(mm)) IN
          \* whole hours beyond -12 .. +14 are beyond the declared limits of a GMT offset: refused; within those hours
          \* the part past -12:00 / +14:00 and minutes >= 60 are left open
          IF sgn * Num(hh) < -12 \/ sgn * Num(hh) > 14 THEN [ok |-> FALSE, judged |-> TRUE, min |-> 0]
          ELSE [ok |-> TRUE, judged |-> tot >= -720 /\ tot <= 840 /\ Num(mm) < 60, min |-> tot]
     ELSE [ok |-> FALSE, judged |-> TRUE, min |-> 0]

\* parsed fields of a date-time / time text
DTParts(s, isTime) ==
  LET lb == IndexOf(s, LBR)
      main == IF lb = 0 THEN s ELSE SubSeq(s, 1, lb - 1)
      tzok == lb = 0 \/ (s[Len(s)] = RBR /\ Len(s) > lb + 1)
      tz == IF lb = 0 \/ ~tzok THEN <<>> ELSE SubSeq(s, lb + 1, Len(s) - 1)
      col == IndexOf(tz, COLON)
      otxt == IF col = 0 THEN tz ELSE SubSeq(tz, 1, col - 1)
      name == IF col = 0 THEN <<>> ELSE SubSeq(tz, col + 1, Len(tz))
      dl == IF isTime THEN 0 ELSE 8
      dot == IndexOf(main, DOT)
      core == IF dot = 0 THEN main ELSE SubSeq(main, 1, dot - 1)
      frac == IF dot = 0 THEN <<>> ELSE SubSeq(main, dot + 1, Len(main))
  IN [lb |-> lb, tzok |-> tzok, otxt |-> otxt, name |-> name, hasname |-> col # 0, dl |-> dl,
      dot |-> dot, core |-> core, frac |-> frac]

DTUnjudgedText(s) == EdgeWS(s) \/ \E i \in 1..Len(s) : s[i] = LF

ConvDT(s, isTime) ==
  LET p == DTParts(s, isTime)
      off == IF p.lb = 0 THEN [ok |-> TRUE, judged |-> TRUE, min |-> 0] ELSE Offset(p.otxt)
      dl == p.dl
      core == p.core
      shapeok == /\ AllDigits(core) /\ AllDigits(p.frac)
                 /\ (Len(core) = dl + 6 \/ (~isTime /\ Len(core) = 8 /\ p.dot = 0 /\ p.lb = 0))
                 /\ (p.dot = 0 \/ Len(p.frac) = 3)
  IN IF DTUnjudgedText(s) THEN UnjudgedV
     ELSE IF ~p.tzok \/ ~shapeok THEN RejectV
     ELSE IF ~off.ok THEN (IF off.judged THEN RejectV ELSE UnjudgedV)
     ELSE LET y == IF isTime THEN 1999 ELSE Num(SubSeq(core, 1, 4))
              m == IF isTime THEN 6 ELSE Num(SubSeq(core, 5, 6))
              d == IF isTime THEN 8 ELSE Num(SubSeq(core, 7, 8))
              hasT == Len(core) = dl + 6
              hh == IF hasT THEN Num(SubSeq(core, dl + 1, dl + 2)) ELSE 0
              mi == IF hasT THEN Num(SubSeq(core, dl + 3, dl + 4)) ELSE 0
              ss == IF hasT THEN Num(SubSeq(core, dl + 5, dl + 6)) ELSE 0
              ms == IF p.frac = <<>> THEN 0 ELSE Num(p.frac)
          IN IF ~(m \in 1..12 /\ d >= 1 /\ d <= DIM(y, m) /\ hh < 24 /\ mi < 60 /\ ss <= 60) THEN RejectV
             ELSE IF ss = 60 \/ ~off.judged \/ y < 2 \/ y > 9998 THEN UnjudgedV
             ELSE LET total == (hh * 60 + mi) - off.min
                      dshift == IF total < 0 THEN -1 ELSE IF total >= 1440 THEN 1 ELSE 0
                      tmin == total - dshift * 1440
                  IN IF isTime THEN [t |-> "time", ms |-> (tmin * 60 + ss) * 1000 + ms]
                     ELSE [t |-> "dt", day |-> DaysFromCivil(y, m, d) + dshift,
                           ms |-> (tmin * 60 + ss) * 1000 + ms]

\* the output notation:  [YYYYMMDD]HHMMSS.XXX[offset[:name]]
DTLexical(s, isTime) ==
  LET p == DTParts(s, isTime) IN
  /\ p.lb # 0 /\ p.tzok /\ p.dot # 0
  /\ Len(p.core) = p.dl + 6 /\ AllDigits(p.core) /\ Len(p.frac) = 3 /\ AllDigits(p.frac)
  /\ Offset(p.otxt).ok
  /\ ConvDT(s, isTime).t \in {"dt", "time"}

\* value to be written: UTC instant [day, ms, us] + the zone's offset (minutes) and name
\* local wall-clock fields of that instant, rounded down/up to a millisecond
LocalMs(v, roundup) ==
  LET msx == v.ms + (IF roundup THEN 1 ELSE 0) + v.off * 60000
      dsh == IF msx < 0 THEN -1 ELSE IF msx >= 86400000 THEN 1 ELSE 0
  IN [day |-> v.day + dsh, ms |-> msx - dsh * 86400000]
OffsetText(off) ==
  LET a == IF off < 0 THEN 0 - off ELSE off IN
  (IF off < 0 THEN <<MINUS>> ELSE <<PLUS>>) \o NatText(a \div 60) \o
  (IF a % 60 = 0 THEN <<>> ELSE <<DOT>> \o Pad(a % 60, 2))
DTText(v, isTime, roundup) ==
  LET l == LocalMs(v, roundup)
      c == CivilFromDays(l.day)
      sod == l.ms \div 1000 IN
  (IF isTime THEN <<>> ELSE Pad(c.y, 4) \o Pad(c.m, 2) \o Pad(c.d, 2)) \o
  Pad(sod \div 3600, 2) \o Pad((sod \div 60) % 60, 2) \o Pad(sod % 60, 2) \o <<DOT>> \o Pad(l.ms % 1000, 3) \o
  <<LBR>> \o OffsetText(v.off) \o (IF v.hasname THEN <<COLON>> \o v.name ELSE <<>>) \o <<RBR>>
\* the admissible outputs: nearest millisecond, a tie may go either way
DTTexts(v, isTime) ==
  IF v.us < 500 THEN {DTText(v, isTime, FALSE)}
  ELSE IF v.us > 500 THEN {DTText(v, isTime, TRUE)}
  ELSE {DTText(v, isTime, FALSE), DTText(v, isTime, TRUE)}

(***************************************************************************)
(* Strings, enumerations, booleans                                         *)
(***************************************************************************)
ConvStr(ty, s) == IF s = <<>> THEN (IF ty.req THEN RejectV ELSE NoneV)
                  ELSE LET v == Decode(s) IN
                       IF ty.k = "str" /\ ty.len # -1 /\ Len(v) > ty.len THEN RejectV
                       ELSE [t |-> "str", s |-> v]
ConvOneOf(ty, s) == IF s = <<>> THEN (IF ty.req THEN RejectV ELSE NoneV)
                    ELSE IF s \in ty.valid THEN [t |-> "str", s |-> s] ELSE RejectV
ConvBool(s) == IF s = <<89>> THEN [t |-> "bool", b |-> TRUE]
               ELSE IF s = <<78>> THEN [t |-> "bool", b |-> FALSE] ELSE RejectV

(***************************************************************************)
(* Conv / Unconv / Lexical by type                                         *)
(***************************************************************************)
Conv(ty, s) ==
  CASE ty.k = "bool" -> IF s = <<>> THEN UnjudgedV ELSE ConvBool(s)
    [] ty.k \in {"str", "nag"} -> ConvStr(ty, s)
    [] ty.k = "oneof" -> ConvOneOf(ty, s)
    [] ty.k = "int" -> IF s = <<>> THEN (IF ty.req THEN RejectV ELSE NoneV) ELSE ConvInt(ty, s)
    [] ty.k = "dec" -> IF s = <<>> THEN UnjudgedV ELSE ConvDec(ty, s)
    [] ty.k = "dt" -> IF s = <<>> THEN UnjudgedV ELSE ConvDT(s, FALSE)
    [] ty.k = "time" -> IF s = <<>> THEN UnjudgedV ELSE ConvDT(s, TRUE)
    [] OTHER -> UnjudgedV

\* Unconv returns the SET of admissible results (a singleton except for rounding ties):
\* NoneV or [t |-> "text", s |-> text]; {} means "must be refused".  Wrong-typed values are refused.
Tx(s) == [t |-> "text", s |-> s]
Unconv(ty, v) ==
  CASE v.t = "none" -> IF ty.req THEN {} ELSE {NoneV}
    [] ty.k = "bool" -> IF v.t = "bool" THEN {Tx(IF v.b THEN <<89>> ELSE <<78>>)} ELSE {}
    [] ty.k = "str" -> IF v.t = "str" /\ (ty.len = -1 \/ Len(v.s) <= ty.len) THEN {Tx(v.s)} ELSE {}
    [] ty.k = "nag" -> IF v.t = "str" THEN {Tx(v.s)} ELSE {}
    [] ty.k = "oneof" -> IF v.t = "str" /\ v.s \in ty.valid THEN {Tx(v.s)} ELSE {}
    [] ty.k = "int" -> IF v.t = "int" /\ IntWithin(v, ty.len) THEN {Tx(IntText(v))} ELSE {}
    [] ty.k = "dec" -> IF v.t = "dec" /\ (ty.scale = -1 \/ v.exp = 0 - ty.scale) THEN {Tx(DecText(v))} ELSE {}
    [] ty.k = "dt" -> IF v.t = "dtv" THEN {Tx(x) : x \in DTTexts(v, FALSE)} ELSE {}
    [] ty.k = "time" -> IF v.t = "timev" THEN {Tx(x) : x \in DTTexts(v, TRUE)} ELSE {}
    [] OTHER -> {}

Lexical(ty, s) ==
  CASE ty.k = "bool" -> s \in {<<89>>, <<78>>}
    [] ty.k = "str" -> ty.len = -1 \/ Len(s) <= ty.len
    [] ty.k = "nag" -> TRUE
    [] ty.k = "oneof" -> s \in ty.valid
    [] ty.k = "int" -> IntLexical(s)
    [] ty.k = "dec" -> DecLexical(s)
    [] ty.k = "dt" -> DTLexical(s, FALSE)
    [] ty.k = "time" -> DTLexical(s, TRUE)
    [] OTHER -> TRUE
=============================================================================
