------------------------------ MODULE OFXScan ------------------------------
(***************************************************************************)
(* Extension beyond the listed properties: ofxget's profile scan.          *)
(* The scan sends one profile request per combination                      *)
(*   (version, pretty, unclosedelements)                                   *)
(* concurrently, collects the combinations that worked, collates them per  *)
(* protocol family and proposes the "best" parameters to store.            *)
(* Works = the set of combinations the server accepts (a combination is    *)
(* [v, p, u]); the expected report is a function of Works only - not of    *)
(* the order in which the 30 concurrent requests complete.                 *)
(***************************************************************************)
EXTENDS Integers, Sequences, FiniteSets, TLC

V1 == {102, 103, 151, 160}
V2 == {200, 201, 202, 203, 210, 211, 220}
Combos == {[v |-> v, p |-> p, u |-> u] : v \in V1, p \in BOOLEAN, u \in BOOLEAN} \cup
          {[v |-> v, p |-> p, u |-> FALSE] : v \in V2, p \in BOOLEAN}
FormatsOf(works, v) == {[p |-> c.p, u |-> c.u] : c \in {x \in works : x.v = v}}
Working(works, fam) == {v \in fam : FormatsOf(works, v) # {}}
MaxFormats(works, fam) == LET W == Working(works, fam) IN
                          {FormatsOf(works, v) : v \in {x \in W : \A y \in W : Cardinality(FormatsOf(works, x)) >= Cardinality(FormatsOf(works, y))}}
\* a reported family result [versions (ascending sequence), formats (sequence of [p, u])] is right when
\* the versions are exactly the working ones and the formats are those of a version that admits the most
SortedVersions(vs) == \A i \in 1..(Len(vs) - 1) : vs[i] < vs[i + 1]
FamilyOK(works, fam, res) ==
  /\ {res.versions[i] : i \in 1..Len(res.versions)} = Working(works, fam) /\ SortedVersions(res.versions)
  /\ Len(res.versions) = Cardinality(Working(works, fam))
  /\ IF Working(works, fam) = {} THEN res.formats = <<>>
     ELSE /\ {res.formats[i] : i \in 1..Len(res.formats)} \in MaxFormats(works, fam)
          /\ Len(res.formats) = Cardinality({res.formats[i] : i \in 1..Len(res.formats)})
Flags(f) == (IF f.p THEN 1 ELSE 0) + (IF f.u THEN 1 ELSE 0)
\* the proposal: OFXv2 if any of it works, else OFXv1; the highest working version; a format with the fewest flags
BestOK(works, v1res, v2res, best) ==
  LET res == IF v2res.versions # <<>> THEN v2res ELSE v1res IN
  IF res.versions = <<>> THEN best.none
  ELSE /\ ~best.none
       /\ best.version = res.versions[Len(res.versions)]
       /\ \E i \in 1..Len(res.formats) : /\ res.formats[i] = [p |-> best.p, u |-> best.u]
                                         /\ \A j \in 1..Len(res.formats) : Flags(res.formats[i]) <= Flags(res.formats[j])
\* the documented assumption: the same formats work for every working version of a family.  Under it the
\* proposal is a combination the scan saw working; without it, it need not be (TLC exhibits such a server).
Uniform(works, fam) == \A a, b \in Working(works, fam) : FormatsOf(works, a) = FormatsOf(works, b)
=============================================================================
