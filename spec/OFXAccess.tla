------------------------------ MODULE OFXAccess ------------------------------
(***************************************************************************)
(* Flat attribute access and the documented shortcuts over abstract model  *)
(* instances [cls, els, mem] (C16).  Results are                            *)
(*   [k |-> "value", v]     a data element's value                         *)
(*   [k |-> "node", p]      the aggregate at path p (compared by identity  *)
(*                          on the real code: the recorder reports the     *)
(*                          path of the very object that was returned)     *)
(*   [k |-> "nodes", ps]    a list of aggregates, in order                 *)
(*   [k |-> "none"]         declared but not set                           *)
(*   [k |-> "attrerror"]    nothing defines the name                       *)
(*   [k |-> "open"]         left open (defined by several descendants ...) *)
(* A path is a sequence of steps <<"e", attr>> or <<"m", index as text>>.  *)
(***************************************************************************)
EXTENDS OFXAggregate

IsInst(v) == "cls" \in DOMAIN v
ElIdx(inst, a) == LET S == {i \in 1..Len(inst.els) : inst.els[i][1] = a} IN IF S = {} THEN 0 ELSE CHOOSE i \in S : TRUE
HasEl(inst, a) == ElIdx(inst, a) # 0
El(inst, a) == inst.els[ElIdx(inst, a)][2]
\* declared as a non-repeated, supported child (element or sub-aggregate)
Declares(cls, name) == \E i \in 1..Len(Attrs(cls)) : Attrs(cls)[i].a = name /\ Attrs(cls)[i].k \in {"elem", "sub"}
DeclaresOther(cls, name) == \E i \in 1..Len(Attrs(cls)) : Attrs(cls)[i].a = name /\ Attrs(cls)[i].k \notin {"elem", "sub"}

\* attributes an instance carries that its class does not declare (the statement shortcuts staple the wrapper's
\* TRNUID and CLTCOOKIE onto response statements); events recorded without them have no "extra" field
Extras(inst) == IF "extra" \in DOMAIN inst THEN inst.extra ELSE <<>>
ExtraIdx(inst, a) == LET S == {i \in 1..Len(Extras(inst)) : Extras(inst)[i][1] = a} IN IF S = {} THEN 0 ELSE CHOOSE i \in S : TRUE
HasExtra(inst, a) == ExtraIdx(inst, a) # 0
OwnExtra(inst, a) == LET x == Extras(inst)[ExtraIdx(inst, a)][2] IN IF x.set THEN [k |-> "value", v |-> x.v] ELSE [k |-> "none"]
Props(cls) == Schema[cls].props

Own(inst, name, path) ==
  IF ~HasEl(inst, name) THEN [k |-> "none"]
  ELSE IF IsInst(El(inst, name)) THEN [k |-> "node", p |-> Append(path, <<"e", name>>)]
  ELSE [k |-> "value", v |-> El(inst, name)]

\* all (path, instance) pairs among the present non-repeated descendants of inst (inst excluded), declaration order
RECURSIVE Below(_, _)
Below(inst, path) ==
  FoldLeft(LAMBDA acc, i :
             IF IsInst(inst.els[i][2])
             THEN LET p == Append(path, <<"e", inst.els[i][1]>>) IN
                  acc \o <<[p |-> p, n |-> inst.els[i][2]]>> \o Below(inst.els[i][2], p)
             ELSE acc, <<>>, [i \in 1..Len(inst.els) |-> i])

(***************************************************************************)
(* Shortcuts: each is "the object found by walking the full path"          *)
(***************************************************************************)
Node(path) == [k |-> "node", p |-> path]
\* follow a path of element steps; "none" if a step is not set
RECURSIVE Walk(_, _, _)
Walk(inst, steps, path) ==
  IF steps = <<>> THEN Node(path)
  ELSE IF ~HasEl(inst, steps[1]) THEN [k |-> "none"]
  ELSE LET v == El(inst, steps[1]) IN
       IF IsInst(v) THEN Walk(v, Tail(steps), Append(path, <<"e", steps[1]>>))
       ELSE (IF Len(steps) = 1 THEN [k |-> "value", v |-> v] ELSE [k |-> "open"])

StatementChild == [STMTTRNRQ |-> "stmtrq", STMTENDTRNRQ |-> "stmtendrq", STMTTRNRS |-> "stmtrs", STMTENDTRNRS |-> "stmtendrs",
                   CCSTMTTRNRQ |-> "ccstmtrq", CCSTMTENDTRNRQ |-> "ccstmtendrq", CCSTMTTRNRS |-> "ccstmtrs",
                   CCSTMTENDTRNRS |-> "ccstmtendrs", INVSTMTTRNRQ |-> "invstmtrq", INVSTMTTRNRS |-> "invstmtrs"]
\* statements of one message set: every wrapper's statement, in document order
MsgStatements(msg, path) ==
  FoldLeft(LAMBDA acc, i :
             LET m == msg.mem[i] IN
             IF IsInst(m) /\ m.cls \in DOMAIN StatementChild /\ HasEl(m, StatementChild[m.cls])
             THEN Append(acc, path \o << <<"m", ToString(i)>>, <<"e", StatementChild[m.cls]>> >>)
             ELSE acc, <<>>, [i \in 1..Len(msg.mem) |-> i])
StmtMsgSets == {"bankmsgsrqv1", "creditcardmsgsrqv1", "invstmtmsgsrqv1", "bankmsgsrsv1", "creditcardmsgsrsv1", "invstmtmsgsrsv1"}
OfxStatements(ofx) ==
  FoldLeft(LAMBDA acc, i :
             IF ofx.els[i][1] \in StmtMsgSets /\ IsInst(ofx.els[i][2])
             THEN acc \o MsgStatements(ofx.els[i][2], << <<"e", ofx.els[i][1]>> >>) ELSE acc,
           <<>>, [i \in 1..Len(ofx.els) |-> i])
SeclistSecurities(msg, path) ==
  FoldLeft(LAMBDA acc, i :
             LET m == msg.mem[i] IN
             IF IsInst(m) /\ m.cls = "SECLIST"
             THEN acc \o [j \in 1..Len(m.mem) |-> path \o << <<"m", ToString(i)>>, <<"m", ToString(j)>> >>]
             ELSE acc, <<>>, [i \in 1..Len(msg.mem) |-> i])

CurAgg(inst) == IF HasEl(inst, "currency") THEN "currency" ELSE IF HasEl(inst, "origcurrency") THEN "origcurrency" ELSE ""
OrigcurrencyClasses == {c \in Classes : Declares(c, "currency") /\ Declares(c, "origcurrency")}

\* the shortcut `name` of the aggregate inst found at `at` (paths in the result are relative to the receiver)
ShortcutAt(inst, name, at) ==
  LET c == inst.cls IN
  CASE c = "OFX" /\ name = "statements" -> [k |-> "nodes", ps |-> OfxStatements(inst)]     \* OFX is never below another aggregate
    [] c = "OFX" /\ name = "securities" ->
         [k |-> "nodes", ps |-> IF HasEl(inst, "seclistmsgsrsv1")
                                THEN SeclistSecurities(El(inst, "seclistmsgsrsv1"), Append(at, <<"e", "seclistmsgsrsv1">>)) ELSE <<>>]
    [] c = "OFX" /\ name = "signon" ->
         IF HasEl(inst, "signonmsgsrqv1") THEN Walk(inst, <<"signonmsgsrqv1", "sonrq">>, at)
         ELSE Walk(inst, <<"signonmsgsrsv1", "sonrs">>, at)
    [] c \in {"BANKMSGSRQV1", "BANKMSGSRSV1", "CREDITCARDMSGSRQV1", "CREDITCARDMSGSRSV1", "INVSTMTMSGSRQV1", "INVSTMTMSGSRSV1"}
         /\ name = "statements" -> [k |-> "nodes", ps |-> MsgStatements(inst, at)]
    [] c = "SECLISTMSGSRSV1" /\ name = "securities" -> [k |-> "nodes", ps |-> SeclistSecurities(inst, at)]
    [] c = "STMTRS" /\ name = "account" -> Walk(inst, <<"bankacctfrom">>, at)
    [] c = "CCSTMTRS" /\ name = "account" -> Walk(inst, <<"ccacctfrom">>, at)
    [] c = "INVSTMTRS" /\ name = "account" -> Walk(inst, <<"invacctfrom">>, at)
    [] c \in {"STMTRS", "CCSTMTRS"} /\ name = "transactions" -> Walk(inst, <<"banktranlist">>, at)
    [] c = "INVSTMTRS" /\ name = "transactions" -> Walk(inst, <<"invtranlist">>, at)
    [] c \in {"STMTRS", "CCSTMTRS"} /\ name = "balance" -> Walk(inst, <<"ledgerbal">>, at)
    [] c = "INVSTMTRS" /\ name = "positions" -> Walk(inst, <<"invposlist">>, at)
    [] c = "INVSTMTRS" /\ name = "balances" -> Walk(inst, <<"invbal">>, at)
    [] c \in {"STMTTRNRS", "STMTENDTRNRS", "CCSTMTTRNRS", "CCSTMTENDTRNRS", "INVSTMTTRNRS"} /\ name = "statement" ->
         Walk(inst, <<StatementChild[c]>>, at)
    [] c = "PROFTRNRS" /\ name = "profile" -> Walk(inst, <<"profrs">>, at)
    [] c = "SONRS" /\ name \in {"org", "fid"} -> IF HasEl(inst, "fi") THEN Walk(inst, <<"fi", name>>, at) ELSE [k |-> "open"]
    [] c \in OrigcurrencyClasses /\ name \in {"cursym", "currate"} ->
         IF CurAgg(inst) = "" THEN [k |-> "none"] ELSE Walk(inst, <<CurAgg(inst), name>>, <<>>)
    [] c \in OrigcurrencyClasses /\ name = "curtype" ->
         IF CurAgg(inst) = "" THEN [k |-> "none"] ELSE [k |-> "text", s |-> El(inst, CurAgg(inst)).cls]
    [] OTHER -> [k |-> "open"]
Shortcut(inst, name) == ShortcutAt(inst, name, <<>>)

\* Flat access.  A name is DEFINED by an aggregate that declares it as a non-repeated child, carries it as a stapled
\* attribute, or has a shortcut (property) of that name; the result is left open when several present descendants define it
Lookup(inst, name) ==
  IF Declares(inst.cls, name) THEN Own(inst, name, <<>>)
  ELSE IF HasExtra(inst, name) THEN OwnExtra(inst, name)
  ELSE IF DeclaresOther(inst.cls, name) \/ name \in Props(inst.cls) THEN [k |-> "open"]
  ELSE LET B == Below(inst, <<>>)
           D == SelectSeq(B, LAMBDA x : Declares(x.n.cls, name))
           X == SelectSeq(B, LAMBDA x : ~Declares(x.n.cls, name) /\ HasExtra(x.n, name))
           P == SelectSeq(B, LAMBDA x : name \in Props(x.n.cls))
           O == SelectSeq(B, LAMBDA x : DeclaresOther(x.n.cls, name)) IN
       IF Len(O) > 0 \/ Len(D) + Len(X) + Len(P) > 1 THEN [k |-> "open"]
       ELSE IF Len(D) = 1 THEN Own(D[1].n, name, D[1].p)
       ELSE IF Len(X) = 1 THEN OwnExtra(X[1].n, name)
       ELSE IF Len(P) = 1 THEN ShortcutAt(P[1].n, name, P[1].p)
       ELSE [k |-> "attrerror"]

(***************************************************************************)
(* Stapling: reading `statements` on a RESPONSE message set (or on the OFX *)
(* above it) sets trnuid / cltcookie of every statement to those of its    *)
(* wrapper; nothing else ever adds an undeclared attribute.                *)
(***************************************************************************)
RsStatementWrappers == {"STMTTRNRS", "STMTENDTRNRS", "CCSTMTTRNRS", "CCSTMTENDTRNRS", "INVSTMTTRNRS"}
RsStatements == {"STMTRS", "STMTENDRS", "CCSTMTRS", "CCSTMTENDRS", "INVSTMTRS"}
ExtraNamesOK(inst) == \A i \in 1..Len(Extras(inst)) : inst.cls \in RsStatements /\ Extras(inst)[i][1] \in {"trnuid", "cltcookie"}
ElOrNone(inst, a) == IF HasEl(inst, a) THEN [k |-> "value", v |-> El(inst, a)] ELSE [k |-> "none"]
\* a wrapper whose statement carries stapled attributes: they are the wrapper's own
WrapperAgrees(w) ==
  (w.cls \in RsStatementWrappers /\ HasEl(w, StatementChild[w.cls])) =>
     LET st == El(w, StatementChild[w.cls]) IN
     \A a \in {"trnuid", "cltcookie"} : HasExtra(st, a) => OwnExtra(st, a) = ElOrNone(w, a)
RECURSIVE ExtrasOK(_)
ExtrasOK(inst) ==
  /\ ExtraNamesOK(inst) /\ WrapperAgrees(inst)
  /\ \A i \in 1..Len(inst.els) : IsInst(inst.els[i][2]) => ExtrasOK(inst.els[i][2])
  /\ \A i \in 1..Len(inst.mem) : IsInst(inst.mem[i]) => ExtrasOK(inst.mem[i])
\* after `statements` was read on a response message set: every statement found carries both attributes
RECURSIVE NodeAt(_, _)
NodeAt(inst, path) ==
  IF path = <<>> THEN inst
  ELSE IF path[1][1] = "e" THEN NodeAt(El(inst, path[1][2]), Tail(path))
  ELSE NodeAt(inst.mem[CHOOSE i \in 1..Len(inst.mem) : ToString(i) = path[1][2]], Tail(path))
StapledAfter(inst, paths) ==
  \A i \in 1..Len(paths) :
     LET st == NodeAt(inst, paths[i]) IN
     st.cls \in RsStatements => (HasExtra(st, "trnuid") /\ HasExtra(st, "cltcookie"))
=============================================================================
