------------------------------ MODULE MC_Compose ------------------------------
(***************************************************************************)
(* Model-level check of the composition clauses (C06): a reference         *)
(* composition satisfies every clause for all request sequences up to      *)
(* MaxReq, and each single deviation falsifies at least one clause.        *)
(***************************************************************************)
EXTENDS OFXCompose

VARIABLES cfg, reqs
vars == <<cfg, reqs>>
CONSTANT MaxReq
TA == <<65>>  TB == <<66, 38, 60>>      \* "A", "B&<"
PW == <<112, 38, 119>>
Inst(cls, els, mem) == [cls |-> cls, els |-> els, mem |-> mem]
D1 == [t |-> "dt", day |-> 18000, ms |-> 1000]
D2 == [t |-> "dt", day |-> 18001, ms |-> 0]

Cfgs == {[version |-> v, org |-> o, fid |-> IF o = <<>> THEN <<>> ELSE <<70>>, clientuid |-> cu, appid |-> <<81>>, appver |-> <<49>>,
          language |-> <<69, 78, 71>>, bankid |-> <<57>>, brokerid |-> <<98>>, userid |-> <<117>>] :
            v \in {102, 103, 203}, o \in {<<>>, <<79>>}, cu \in {<<>>, <<85>>}}
Reqs == {[kind |-> k, acctid |-> a, accttype |-> <<67>>, dtstart |-> ds, dtend |-> NoneV, dtasof |-> NoneV, inctran |-> it,
          incoo |-> FALSE, incpos |-> TRUE, incbal |-> TRUE] :
            k \in StmtKinds, a \in {TA, TB}, ds \in {NoneV, D1}, it \in BOOLEAN}
Init == cfg \in Cfgs /\ reqs = <<>>
Next == Len(reqs) < MaxReq /\ \E r \in Reqs : reqs' = Append(reqs, r) /\ UNCHANGED cfg
Spec == Init /\ [][Next]_vars

\* ---- reference composition
Acct(r, c) == CASE r.kind \in {"stmt", "stmtend"} ->
                     Inst("BANKACCTFROM", << <<"bankid", Str(c.bankid)>>, <<"acctid", Str(r.acctid)>>, <<"accttype", Str(r.accttype)>> >>, <<>>)
                [] r.kind \in {"ccstmt", "ccstmtend"} -> Inst("CCACCTFROM", << <<"acctid", Str(r.acctid)>> >>, <<>>)
                [] OTHER -> Inst("INVACCTFROM", << <<"brokerid", Str(c.brokerid)>>, <<"acctid", Str(r.acctid)>> >>, <<>>)
Opt(name, v) == IF v = NoneV THEN <<>> ELSE << <<name, v>> >>
IncTran(r) == Inst("INCTRAN", Opt("dtstart", r.dtstart) \o Opt("dtend", r.dtend) \o << <<"include", Bool(r.inctran)>> >>, <<>>)
Rq(r, c) ==
  CASE r.kind \in {"stmt", "ccstmt"} ->
         Inst(IF r.kind = "stmt" THEN "STMTRQ" ELSE "CCSTMTRQ", << <<AcctChild(r.kind), Acct(r, c)>>, <<"inctran", IncTran(r)>> >>, <<>>)
    [] r.kind \in {"stmtend", "ccstmtend"} ->
         Inst(IF r.kind = "stmtend" THEN "STMTENDRQ" ELSE "CCSTMTENDRQ",
              << <<AcctChild(r.kind), Acct(r, c)>> >> \o Opt("dtstart", r.dtstart) \o Opt("dtend", r.dtend), <<>>)
    [] OTHER -> Inst("INVSTMTRQ", << <<"invacctfrom", Acct(r, c)>> >> \o (IF r.inctran THEN << <<"inctran", IncTran(r)>> >> ELSE <<>>) \o
                     << <<"incoo", Bool(r.incoo)>>,
                        <<"incpos", Inst("INCPOS", Opt("dtasof", r.dtasof) \o << <<"include", Bool(r.incpos)>> >>, <<>>)>>,
                        <<"incbal", Bool(r.incbal)>> >>, <<>>)
Wrapper(r, c, uid) == Inst(WrapperOf(r.kind), << <<"trnuid", Str(<<uid>>)>>, <<RqChild(r.kind), Rq(r, c)>> >>, <<>>)
Signon(c, withuid) ==
  Inst("SIGNONMSGSRQV1", << <<"sonrq",
     Inst("SONRQ", << <<"dtclient", D2>>, <<"userid", Str(c.userid)>>, <<"userpass", Str(PW)>>, <<"language", Str(c.language)>> >> \o
                   (IF c.org # <<>> THEN << <<"fi", Inst("FI", << <<"org", Str(c.org)>> >> \o Opt("fid", OptStr(c.fid)), <<>>)>> >> ELSE <<>>) \o
                   << <<"appid", Str(c.appid)>>, <<"appver", Str(c.appver)>> >> \o
                   (IF withuid THEN << <<"clientuid", Str(c.clientuid)>> >> ELSE <<>>), <<>>)>> >>, <<>>)
KindOrder == <<"stmtend", "stmt", "ccstmtend", "ccstmt", "invstmt">>
Idx(rs) == [i \in 1..Len(rs) |-> i]
MsgMembers(rs, c, ms) ==
  FoldLeft(LAMBDA acc, k : IF MsgSetOf(k) = ms
                           THEN acc \o FoldLeft(LAMBDA a2, i : IF rs[i].kind = k THEN Append(a2, Wrapper(rs[i], c, i)) ELSE a2, <<>>, Idx(rs))
                           ELSE acc, <<>>, KindOrder)
MsgEls(rs, c) ==
  FoldLeft(LAMBDA acc, ms : IF MsgMembers(rs, c, ms) # <<>>
                            THEN Append(acc, <<ms, Inst(IF ms = "bankmsgsrqv1" THEN "BANKMSGSRQV1" ELSE IF ms = "creditcardmsgsrqv1"
                                                         THEN "CREDITCARDMSGSRQV1" ELSE "INVSTMTMSGSRQV1", <<>>, MsgMembers(rs, c, ms))>>)
                            ELSE acc, <<>>, <<"bankmsgsrqv1", "creditcardmsgsrqv1", "invstmtmsgsrqv1">>)
Compose(rs, c) == Inst("OFX", << <<"signonmsgsrqv1", Signon(c, c.clientuid # <<>> /\ c.version >= 103)>> >> \o MsgEls(rs, c), <<>>)

AllHold(cl) == \A i \in 1..Len(cl) : cl[i][2]
Clauses(inst, rs, c) == SignonClauses(inst, c, c.userid, PW) \o StatementClauses(inst, c, rs)
ClausesHold == AllHold(Clauses(Compose(reqs, cfg), reqs, cfg))

\* ---- single deviations must falsify a clause
DropDetected == Len(reqs) >= 1 => ~AllHold(Clauses(Compose(Tail(reqs), cfg), reqs, cfg))
ExtraDetected == Len(reqs) >= 1 => ~AllHold(Clauses(Compose(Append(reqs, reqs[1]), cfg), reqs, cfg))
SwapDetected == (Len(reqs) >= 2 /\ reqs[1].kind = reqs[2].kind /\ reqs[1].acctid # reqs[2].acctid) =>
                  ~AllHold(Clauses(Compose(<<reqs[2], reqs[1]>> \o SubSeq(reqs, 3, Len(reqs)), cfg), reqs, cfg))
DupUidDetected == Len(reqs) >= 2 =>
   LET good == Compose(reqs, cfg)
       m == good.els[2][2]
       bad == [good EXCEPT !.els[2][2].mem = IF Len(m.mem) >= 2
                                             THEN [m.mem EXCEPT ![2].els[1] = m.mem[1].els[1]] ELSE m.mem] IN
   (Len(m.mem) >= 2) => ~AllHold(Clauses(bad, reqs, cfg))
ClientUidThreshold == (cfg.version < 103 /\ cfg.clientuid # <<>>) =>
   ~AllHold(Clauses([Compose(reqs, cfg) EXCEPT !.els[1][2] = Signon(cfg, TRUE)], reqs, cfg))
WrongMsgSetDetected == (Len(reqs) >= 1 /\ reqs[1].kind = "ccstmt") =>
   LET good == Compose(reqs, cfg)
       w == Wrapper(reqs[1], cfg, 1)
       bad == [good EXCEPT !.els = Append(SelectSeq(good.els, LAMBDA e : e[1] # "creditcardmsgsrqv1" \/ Len(e[2].mem) > 1),
                                           <<"bankmsgsrqv1", Inst("BANKMSGSRQV1", <<>>, <<w>>)>>)] IN
   (Len(PerKind(reqs, "stmt")) = 0 /\ Len(PerKind(reqs, "stmtend")) = 0 /\ Len(PerKind(reqs, "ccstmt")) = 1 /\ Len(PerKind(reqs, "ccstmtend")) = 0)
     => ~AllHold(Clauses(bad, reqs, cfg))
WrongPasswordDetected == ~AllHold(SignonClauses(Compose(reqs, cfg), cfg, cfg.userid, <<120>>))
=============================================================================
