SPECIFICATION Spec
POSTCONDITION Consumed
