------------------------------ MODULE MC_SecIds ------------------------------
(***************************************************************************)
(* Check-digit algebra on exhaustive small domains (C20): a seed state     *)
(* chooses a base with all positions fixed but two; its successors vary    *)
(* those two positions over the whole alphabet.                            *)
(***************************************************************************)
EXTENDS SecIds, TLC, Json, IOUtils
CONSTANT Adjacent

Agencies == {<<85, 83>>, <<71, 66>>, <<68, 69>>}
Digits10 == 48..57
Letters == 65..90
CusipAlpha == Digits10 \cup Letters \cup {42, 64, 35}
SedolAlpha == Digits10 \cup (Letters \ {65, 69, 73, 79, 85})
IsinAlpha == Digits10 \cup Letters

VARIABLE c
Init == \E k \in {"cusip", "sedol", "isin"} :
          \E p \in 1..(IF k = "cusip" THEN 8 ELSE IF k = "sedol" THEN 6 ELSE 9) :
            \E q \in 1..(IF k = "cusip" THEN 8 ELSE IF k = "sedol" THEN 6 ELSE 9) :
              p < q /\ (Adjacent => q = p + 1) /\ c = [seed |-> TRUE, k |-> k, p |-> p, q |-> q]
Base0(k) == CASE k = "cusip" -> <<48, 51, 55, 56, 51, 51, 49, 48>>
              [] k = "sedol" -> <<66, 48, 89, 66, 75, 74>>
              [] k = "isin" -> <<85, 83, 48, 51, 55, 56, 51, 51, 49, 48, 48>>
Alpha(k) == CASE k = "cusip" -> CusipAlpha [] k = "sedol" -> SedolAlpha [] k = "isin" -> IsinAlpha
Off(k) == IF k = "isin" THEN 2 ELSE 0
Next == /\ c.seed
        /\ \E a \in Alpha(c.k) : \E b \in Alpha(c.k) :
             c' = [seed |-> FALSE, k |-> c.k,
                   base |-> [Base0(c.k) EXCEPT ![c.p + Off(c.k)] = a, ![c.q + Off(c.k)] = b]]
Spec == Init /\ [][Next]_c

Check(k, b) == CASE k = "cusip" -> CusipCheck(b) [] k = "sedol" -> SedolCheck(b) [] k = "isin" -> IsinCheck(b)
Valid(k, id) == CASE k = "cusip" -> ValidCusip(id) [] k = "sedol" -> ValidSedol(id) [] k = "isin" -> ValidIsin(id, Agencies)

CompletedValidates == ~c.seed => Valid(c.k, c.base \o Check(c.k, c.base))
CheckIsDigit == ~c.seed => Check(c.k, c.base)[1] \in Digits10
WrongCheckFails == ~c.seed => \A ch \in Alpha(c.k) : <<ch>> # Check(c.k, c.base) => ~Valid(c.k, Append(c.base, ch))
WrongLengthFails == ~c.seed => /\ ~Valid(c.k, c.base)
                               /\ ~Valid(c.k, c.base \o Check(c.k, c.base) \o <<48>>)
                               /\ ~Valid(c.k, Tail(c.base \o Check(c.k, c.base)))
\* single-digit substitution in a position always changes the check digit (true of all three schemes)
SingleDigitErrorDetected == ~c.seed =>
   \A i \in (1 + Off(c.k))..Len(c.base) : \A d \in Digits10 :
      (IsDigit(c.base[i]) /\ d # c.base[i]) => Check(c.k, [c.base EXCEPT ![i] = d]) # Check(c.k, c.base)
ConvertedValidates == ~c.seed =>
   /\ (c.k = "cusip" /\ \A i \in 1..8 : IsAlnum(c.base[i])) => LET id == c.base \o CusipCheck(c.base) isin == Cusip2Isin(id, <<85, 83>>) IN
                       ValidIsin(isin, Agencies) /\ SubSeq(isin, 3, 11) = id
   /\ c.k = "sedol" => LET id == c.base \o SedolCheck(c.base) isin == Sedol2Isin(id, <<71, 66>>) IN
                       ValidIsin(isin, Agencies) /\ SubSeq(isin, 5, 11) = id
UnknownPrefixFails == (~c.seed /\ c.k = "isin") =>
   LET b == [c.base EXCEPT ![1] = 90, ![2] = 90] IN ~ValidIsin(b \o IsinCheck(b), Agencies)
EmitMod == atoi(IOEnv.EMITMOD)
Emit == IF EmitMod > 0 /\ ~c.seed /\ TLCGet("distinct") % EmitMod = 0
        THEN PrintT("CASE " \o ToJson([k |-> c.k, base |-> c.base])) ELSE TRUE
=============================================================================
