------------------------------ MODULE Trace_Home ------------------------------
(***************************************************************************)
(* Code -> spec for E03: lookups, trust decisions and institution lists    *)
(* recorded from the real ofxtools.ofxhome over a fake OFX Home.           *)
(***************************************************************************)
EXTENDS OFXHome, TraceBase

VARIABLE l

Judge(e) ==
  CASE e.op = "lookup" ->
         LET r == Lookup(e.lid, e.answer) IN
         << <<"lookup-outcome expected " \o r.k, e.out.k = r.k>> >> \o
         (IF r.k = "server" /\ e.out.k = "server"
          THEN << <<"record-id", e.out.id = r.id>>,
                  <<"text-fields", e.out.str = r.str>>,
                  <<"failure-flags", e.out.flag = r.flag>> >>
          ELSE <<>>)
    [] e.op = "trust" ->
         << <<"trust-" \o e.which \o " flag=" \o e.flag, e.out = Invalid(e.flag, e.haslast, e.age, e.days)>> >>
    [] e.op = "list" ->
         LET want == ListOf(e.entries) IN
         << <<"list-ids", {e.out[i].id : i \in 1..Len(e.out)} = DOMAIN want>>,
            <<"list-names", \A i \in 1..Len(e.out) : e.out[i].id \in DOMAIN want => e.out[i].name = want[e.out[i].id]>> >>

Init == l = 1
Next == l <= Len(Log) /\ Report(Log[l].id, Judge(Log[l])) /\ l' = l + 1
Spec == Init /\ [][Next]_l
=============================================================================
