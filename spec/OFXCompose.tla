------------------------------ MODULE OFXCompose ------------------------------
(***************************************************************************)
(* What a composed request must say (C06, and the account selection of     *)
(* C19): clauses over the abstract OFX instance [cls, els, mem] read from  *)
(* the request file, given the client configuration cfg, the password and  *)
(* the requests the caller asked for.                                      *)
(*   cfg  = [version, org, fid, clientuid, appid, appver, language,        *)
(*           bankid, brokerid, userid]           (texts as code points)    *)
(*   req  = [kind, acctid, accttype, dtstart, dtend, dtasof, inctran,      *)
(*           incoo, incpos, incbal]   dates: [t |-> "dt", day, ms] | NoneV *)
(* The relative order of different kinds inside one message set is not     *)
(* stated by the property and is left free; within a kind the order is the *)
(* request order.                                                          *)
(***************************************************************************)
EXTENDS OFXAccess

StmtKinds == {"stmt", "stmtend", "ccstmt", "ccstmtend", "invstmt"}
MsgSetOf(k) == CASE k \in {"stmt", "stmtend"} -> "bankmsgsrqv1"
                 [] k \in {"ccstmt", "ccstmtend"} -> "creditcardmsgsrqv1"
                 [] k = "invstmt" -> "invstmtmsgsrqv1"
WrapperOf(k) == CASE k = "stmt" -> "STMTTRNRQ" [] k = "stmtend" -> "STMTENDTRNRQ" [] k = "ccstmt" -> "CCSTMTTRNRQ"
                  [] k = "ccstmtend" -> "CCSTMTENDTRNRQ" [] k = "invstmt" -> "INVSTMTTRNRQ"
RqChild(k) == CASE k = "stmt" -> "stmtrq" [] k = "stmtend" -> "stmtendrq" [] k = "ccstmt" -> "ccstmtrq"
                [] k = "ccstmtend" -> "ccstmtendrq" [] k = "invstmt" -> "invstmtrq"
AcctChild(k) == CASE k \in {"stmt", "stmtend"} -> "bankacctfrom" [] k \in {"ccstmt", "ccstmtend"} -> "ccacctfrom"
                  [] k = "invstmt" -> "invacctfrom"

\* value at a path of element names: a value record, an instance, or NoneV
RECURSIVE At(_, _)
At(inst, steps) == IF steps = <<>> THEN inst
                   ELSE IF ~IsInst(inst) \/ ~HasEl(inst, steps[1]) THEN NoneV
                   ELSE At(El(inst, steps[1]), Tail(steps))
Str(s) == [t |-> "str", s |-> s]
Bool(b) == [t |-> "bool", b |-> b]
OptStr(s) == IF s = <<>> THEN NoneV ELSE Str(s)

Members(inst, msgset) == IF HasEl(inst, msgset) THEN El(inst, msgset).mem ELSE <<>>
OfKind(inst, k) == SelectSeq(Members(inst, MsgSetOf(k)), LAMBDA w : IsInst(w) /\ w.cls = WrapperOf(k))

\* what one wrapper says
Obs(w, k) ==
  LET rq == At(w, <<RqChild(k)>>) IN
  [acctid |-> At(rq, <<AcctChild(k), "acctid">>),
   accttype |-> At(rq, <<AcctChild(k), "accttype">>),
   bankid |-> At(rq, <<AcctChild(k), "bankid">>),
   brokerid |-> At(rq, <<AcctChild(k), "brokerid">>),
   dtstart |-> IF k \in {"stmtend", "ccstmtend"} THEN At(rq, <<"dtstart">>) ELSE At(rq, <<"inctran", "dtstart">>),
   dtend |-> IF k \in {"stmtend", "ccstmtend"} THEN At(rq, <<"dtend">>) ELSE At(rq, <<"inctran", "dtend">>),
   inctran |-> At(rq, <<"inctran", "include">>),
   dtasof |-> At(rq, <<"incpos", "dtasof">>),
   incpos |-> At(rq, <<"incpos", "include">>),
   incoo |-> At(rq, <<"incoo">>),
   incbal |-> At(rq, <<"incbal">>)]
\* what the caller asked for
Exp(r, cfg) ==
  LET k == r.kind
      tran == k \in {"stmt", "ccstmt", "invstmt"}
      wantTran == tran /\ (k # "invstmt" \/ r.inctran) IN     \* INVSTMTRQ may omit INCTRAN when transactions are not wanted
  [acctid |-> Str(r.acctid),
   accttype |-> IF k \in {"stmt", "stmtend"} THEN Str(r.accttype) ELSE NoneV,
   bankid |-> IF k \in {"stmt", "stmtend"} THEN Str(cfg.bankid) ELSE NoneV,
   brokerid |-> IF k = "invstmt" THEN Str(cfg.brokerid) ELSE NoneV,
   dtstart |-> IF tran /\ ~wantTran THEN NoneV ELSE r.dtstart,
   dtend |-> IF tran /\ ~wantTran THEN NoneV ELSE r.dtend,
   inctran |-> IF wantTran THEN Bool(r.inctran) ELSE NoneV,
   dtasof |-> IF k = "invstmt" THEN r.dtasof ELSE NoneV,
   incpos |-> IF k = "invstmt" THEN Bool(r.incpos) ELSE NoneV,
   incoo |-> IF k = "invstmt" THEN Bool(r.incoo) ELSE NoneV,
   incbal |-> IF k = "invstmt" THEN Bool(r.incbal) ELSE NoneV]
\* an investment request that does not want transactions may also carry INCTRAN with INCLUDE N and its dates
ObsMatches(o, r, cfg) ==
  \/ o = Exp(r, cfg)
  \/ (r.kind = "invstmt" /\ ~r.inctran /\ o = [Exp(r, cfg) EXCEPT !.inctran = Bool(FALSE), !.dtstart = r.dtstart, !.dtend = r.dtend])

AllWrappers(inst) ==
  FoldLeft(LAMBDA acc, i : IF IsInst(inst.els[i][2]) /\ inst.els[i][1] # "signonmsgsrqv1" THEN acc \o inst.els[i][2].mem ELSE acc,
           <<>>, [i \in 1..Len(inst.els) |-> i])
TrnUids(inst) == [i \in 1..Len(AllWrappers(inst)) |-> At(AllWrappers(inst)[i], <<"trnuid">>)]
Distinct(seq) == \A i, j \in 1..Len(seq) : i # j => seq[i] # seq[j]

Sonrq(inst) == At(inst, <<"signonmsgsrqv1", "sonrq">>)
\* sequence of <<clause name, holds>>
SignonClauses(inst, cfg, userid, password) ==
  LET s == Sonrq(inst) IN
  << <<"one-signon", IsInst(s) /\ s.cls = "SONRQ">>,
     <<"signon-userid", At(s, <<"userid">>) = Str(userid)>>,
     <<"signon-password", At(s, <<"userpass">>) = Str(password)>>,
     <<"signon-language", At(s, <<"language">>) = Str(cfg.language)>>,
     <<"signon-appid", At(s, <<"appid">>) = Str(cfg.appid) /\ At(s, <<"appver">>) = Str(cfg.appver)>>,
     <<"signon-fi-iff-org", HasEl(s, "fi") <=> cfg.org # <<>>>>,
     <<"signon-fi-values", cfg.org # <<>> => (At(s, <<"fi", "org">>) = Str(cfg.org) /\ At(s, <<"fi", "fid">>) = OptStr(cfg.fid))>>,
     <<"signon-clientuid", At(s, <<"clientuid">>) = (IF cfg.clientuid # <<>> /\ cfg.version >= 103 THEN Str(cfg.clientuid) ELSE NoneV)>>,
     <<"signon-no-other-credentials", ~HasEl(s, "userkey") /\ ~HasEl(s, "sesscookie")>> >>

PerKind(reqs, k) == SelectSeq(reqs, LAMBDA r : r.kind = k)
StatementClauses(inst, cfg, reqs) ==
  << <<"one-wrapper-per-request", Len(AllWrappers(inst)) = Len(reqs)>>,
     <<"wrappers-under-right-message-set",
        \A i \in 1..Len(inst.els) : inst.els[i][1] # "signonmsgsrqv1" =>
           /\ \E k \in StmtKinds : MsgSetOf(k) = inst.els[i][1]
           /\ \A j \in 1..Len(inst.els[i][2].mem) :
                \E k \in StmtKinds : MsgSetOf(k) = inst.els[i][1] /\ inst.els[i][2].mem[j].cls = WrapperOf(k)>>,
     <<"per-kind-count-and-order",
        \A k \in StmtKinds : Len(OfKind(inst, k)) = Len(PerKind(reqs, k))>>,
     <<"per-kind-contents",
        \A k \in StmtKinds : Len(OfKind(inst, k)) = Len(PerKind(reqs, k)) =>
           \A i \in 1..Len(PerKind(reqs, k)) : ObsMatches(Obs(OfKind(inst, k)[i], k), PerKind(reqs, k)[i], cfg)>>,
     <<"trnuids-distinct", Distinct(TrnUids(inst)) /\ \A i \in 1..Len(TrnUids(inst)) : TrnUids(inst)[i] # NoneV>>,
     <<"no-empty-message-set", \A i \in 1..Len(inst.els) : IsInst(inst.els[i][2]) /\ inst.els[i][1] # "signonmsgsrqv1" => inst.els[i][2].mem # <<>>>> >>

(***************************************************************************)
(* C19: which accounts ofxget asks for.  e = [request, cli, cfg, all,      *)
(* infos, dt, flags]; account lists are sequences of texts per type.       *)
(***************************************************************************)
BankTypes == <<"checking", "savings", "moneymrkt", "creditline">>
ACTIVE == <<65, 67, 84, 73, 86, 69>>
UpperOf(t) == CASE t = "checking" -> <<67, 72, 69, 67, 75, 73, 78, 71>> [] t = "savings" -> <<83, 65, 86, 73, 78, 71, 83>>
                [] t = "moneymrkt" -> <<77, 79, 78, 69, 89, 77, 82, 75, 84>> [] t = "creditline" -> <<67, 82, 69, 68, 73, 84, 76, 73, 78, 69>>
ActiveOf(infos, kind, accttype) ==
  LET S == SelectSeq(infos, LAMBDA x : x.kind = kind /\ x.status = ACTIVE /\ (kind = "bank" => x.accttype = accttype)) IN
  [i \in 1..Len(S) |-> S[i].acctid]
ActiveIds(infos, kind) == LET S == SelectSeq(infos, LAMBDA x : x.kind = kind /\ x.status = ACTIVE) IN [i \in 1..Len(S) |-> S[i].instid]
KindOfType(t) == IF t = "creditcard" THEN "cc" ELSE IF t = "investment" THEN "inv" ELSE "bank"
\* command line, then (with --all) the ACTIVE accounts of the response, then the configuration file
EffList(e, t) ==
  IF e.cli[t] # <<>> THEN e.cli[t]
  ELSE IF e.all /\ ActiveOf(e.infos, KindOfType(t), IF KindOfType(t) = "bank" THEN UpperOf(t) ELSE <<>>) # <<>>
       THEN ActiveOf(e.infos, KindOfType(t), IF KindOfType(t) = "bank" THEN UpperOf(t) ELSE <<>>)
  ELSE e.cfg[t]
EffId(e, name, kind) ==
  IF e.cli[name] # <<>> THEN e.cli[name]
  ELSE IF e.all /\ ActiveIds(e.infos, kind) # <<>> THEN ActiveIds(e.infos, kind)[1]
  ELSE e.cfg[name]
DateOf(text) == IF text = <<>> THEN NoneV ELSE Conv(Ty("dt", -1, -1, {}, FALSE), text)
Selected(e) ==
  LET ds == DateOf(e.dt.start) de == DateOf(e.dt.end) da == DateOf(e.dt.asof)
      endrq == e.request = "stmtend"
      mk(kind, acct, at) == [kind |-> kind, acctid |-> acct, accttype |-> at, dtstart |-> ds, dtend |-> de, dtasof |-> da,
                             inctran |-> e.flags.inctran, incoo |-> e.flags.incoo, incpos |-> e.flags.incpos, incbal |-> e.flags.incbal]
      bank == FoldLeft(LAMBDA acc, t : acc \o [i \in 1..Len(EffList(e, t)) |-> mk(IF endrq THEN "stmtend" ELSE "stmt", EffList(e, t)[i], UpperOf(t))],
                       <<>>, BankTypes)
      cc == [i \in 1..Len(EffList(e, "creditcard")) |-> mk(IF endrq THEN "ccstmtend" ELSE "ccstmt", EffList(e, "creditcard")[i], <<>>)]
      inv == IF endrq THEN <<>> ELSE [i \in 1..Len(EffList(e, "investment")) |-> mk("invstmt", EffList(e, "investment")[i], <<>>)]
  IN bank \o cc \o inv
CountIn(seq, x) == Cardinality({i \in 1..Len(seq) : seq[i] = x})
SameBag(a, b) == Len(a) = Len(b) /\ \A i \in 1..Len(a) : CountIn(a, a[i]) = CountIn(b, a[i])
\* an observation is normalised so that the two admissible encodings of "no transactions" coincide
ExpBag(rs, cfg) == [i \in 1..Len(rs) |-> Exp(rs[i], cfg)]
ObsBag(ws, k, rs) == [i \in 1..Len(ws) |->
   LET o == Obs(ws[i], k) IN
   IF k = "invstmt" /\ o.inctran = Bool(FALSE) THEN [o EXCEPT !.inctran = NoneV, !.dtstart = NoneV, !.dtend = NoneV] ELSE o]
SelectionClauses(inst, e) ==
  LET rs == Selected(e)
      cfg == [bankid |-> EffId(e, "bankid", "bank"), brokerid |-> EffId(e, "brokerid", "inv")] IN
  << <<"one-statement-per-selected-account", Len(AllWrappers(inst)) = Len(rs)>>,
     <<"wrappers-are-statement-requests",
        \A i \in 1..Len(AllWrappers(inst)) : \E k \in StmtKinds : AllWrappers(inst)[i].cls = WrapperOf(k)>> >> \o
  [j \in 1..5 |->
     LET k == <<"stmt", "stmtend", "ccstmt", "ccstmtend", "invstmt">>[j] IN
     <<"accounts-of-kind-" \o k, SameBag(ObsBag(OfKind(inst, k), k, rs), ExpBag(PerKind(rs, k), cfg))>>]
=============================================================================
