------------------------------ MODULE MC_TreeLife ------------------------------
EXTENDS OFXTreeLife, Json
CONSTANT MaxOps
VARIABLES st, hist
vars == <<st, hist>>
Init == st = Empty /\ hist = <<>>
Parse == \E k \in Sources, d \in Docs : Len(hist) < MaxOps /\ st' = StParse(st, k, d)
                                        /\ hist' = Append(hist, [op |-> "parse", kind |-> k, doc |-> d])
Convert == Len(hist) < MaxOps /\ st' = st /\ hist' = Append(hist, [op |-> "convert", kind |-> "", doc |-> ""])
Next == Parse \/ Convert
Spec == Init /\ [][Next]_vars
Sound == RootIsValidDoc(st) /\ NoRootWithoutHeader(st)
\* a successful parse makes the tree hold exactly that document, whatever it held before
ParseReplaces == [][\A k \in Sources, d \in Valid : (k # "textfile" /\ st' = StParse(st, k, d)) => (st'.hdr = st'.root)]_vars
Agree == HeaderRootAgree(st)
View == st
Emit == (Len(hist) = MaxOps) => PrintT("HIST " \o ToJson([hist |-> hist]))
=============================================================================
