------------------------------ MODULE ProfileCache ------------------------------
(***************************************************************************)
(* The FI profile cache protocol (C15).                                    *)
(*                                                                         *)
(* Clients call RequestProfile concurrently; each call is a sequence of    *)
(* steps at its I/O boundary:                                              *)
(*   Start     - look at the cache (absent / whole profile / unreadable)   *)
(*   Exchange  - ask the server with the date of the profile held; the     *)
(*               server answers: newer profile, the same / an older one,   *)
(*               "up to date", an error status, garbage, a well-formed but  *)
(*               invalid profile, or the transport                         *)
(*               fails                                                     *)
(*   Decide    - success with the cached profile, failure, or go on to     *)
(*               store the profile received                                *)
(*   then the WRITE PROTOCOL (constant Variant):                           *)
(*     "inplace": OpenTrunc, WriteChunk*, Close      (truncate and rewrite)*)
(*     "atomic" : WriteTmp, Rename                   (write aside, rename) *)
(* A client may Crash between any two steps.  Files hold chunks tagged     *)
(* with the profile they belong to, so overlapping writers produce mixed   *)
(* content.                                                                *)
(***************************************************************************)
EXTENDS Integers, Sequences, FiniteSets, TLC
CONSTANTS Clients, Servers, Keys, KeyOf, SrvOf, MaxDt, MaxCrash, Variant, MaxCalls

None == [srv |-> "none", dt |-> 0, len |-> 0]
\* (a profile has 1 or 2 chunks; spelled out as sequences so that Apalache can type it, spec/APA_ProfileCache.tla)
\* @type: ({srv: Str, dt: Int, len: Int}) => Seq({p: {srv: Str, dt: Int, len: Int}, i: Int});
Chunks(p) == IF p.len <= 0 THEN <<>> ELSE IF p.len = 1 THEN <<[p |-> p, i |-> 1]>> ELSE <<[p |-> p, i |-> 1], [p |-> p, i |-> 2]>>
\* @type: (Seq({p: {srv: Str, dt: Int, len: Int}, i: Int})) => Bool;
Whole(content) == content # <<>> /\ LET p == content[1].p IN content = Chunks(p)
\* @type: (Seq({p: {srv: Str, dt: Int, len: Int}, i: Int})) => {srv: Str, dt: Int, len: Int};
ProfOf(content) == content[1].p
VARIABLES disk,    \* [Keys -> [exists, content]]
          tmpf,    \* [Clients -> content]         private temporary file (atomic variant)
          pc, held, resp, off, ret, srvdt, sent, crashes, calls
vars == <<disk, tmpf, pc, held, resp, off, ret, srvdt, sent, crashes, calls>>
K(c) == KeyOf[c]

Init == /\ disk = [k \in Keys |-> [exists |-> FALSE, content |-> <<>>]]
        /\ tmpf = [c \in Clients |-> <<>>]
        /\ pc = [c \in Clients |-> "idle"] /\ held = [c \in Clients |-> None]
        /\ resp = [c \in Clients |-> [kind |-> "none", p |-> None]]
        /\ off = [c \in Clients |-> 0] /\ ret = [c \in Clients |-> [ok |-> FALSE, p |-> None, asked |-> 0]]
        /\ srvdt = [s \in Servers |-> 1] /\ sent = [s \in Servers |-> {}]
        /\ crashes = 0 /\ calls = 0

Start(c) == /\ pc[c] = "idle" /\ calls < MaxCalls /\ calls' = calls + 1
            /\ IF ~disk[K(c)].exists THEN held' = [held EXCEPT ![c] = None] /\ pc' = [pc EXCEPT ![c] = "ready"]
               ELSE IF Whole(disk[K(c)].content)
                    THEN held' = [held EXCEPT ![c] = ProfOf(disk[K(c)].content)] /\ pc' = [pc EXCEPT ![c] = "ready"]
               ELSE held' = held /\ pc' = [pc EXCEPT ![c] = "failed"]        \* unreadable cache: the call fails
            /\ ret' = [ret EXCEPT ![c] = [ok |-> FALSE, p |-> None, asked |-> 0]]
            /\ resp' = [resp EXCEPT ![c] = [kind |-> "none", p |-> None]]
            /\ UNCHANGED <<disk, tmpf, off, srvdt, sent, crashes>>
ServerBump(s) == /\ srvdt[s] < MaxDt /\ srvdt' = [srvdt EXCEPT ![s] = @ + 1]
                 /\ UNCHANGED <<disk, tmpf, pc, held, resp, off, ret, sent, crashes, calls>>
Exchange(c) ==
  /\ pc[c] = "ready"
  /\ LET s == SrvOf[c] IN
     \E kind \in {"newer", "uptodate", "older", "error", "garbage", "invalid", "neterr"} : \E ln \in 1..2 :
       /\ (kind = "older" => srvdt[s] > 1)
       /\ (kind = "uptodate" => held[c] # None)       \* a server says "up to date" only to a client that named a date
       /\ LET p == CASE kind = "newer" -> [srv |-> s, dt |-> srvdt[s], len |-> ln]
                     [] kind = "older" -> [srv |-> s, dt |-> srvdt[s] - 1, len |-> ln]
                     [] OTHER -> None IN
          /\ resp' = [resp EXCEPT ![c] = [kind |-> kind, p |-> p]]
          /\ sent' = IF p # None THEN [sent EXCEPT ![s] = @ \cup {p}] ELSE sent
  /\ ret' = [ret EXCEPT ![c].asked = held[c].dt]
  /\ pc' = [pc EXCEPT ![c] = "got"]
  /\ UNCHANGED <<disk, tmpf, held, off, srvdt, crashes, calls>>
Decide(c) ==
  /\ pc[c] = "got"
  /\ LET r == resp[c] IN
     CASE r.kind = "uptodate" -> ret' = [ret EXCEPT ![c].ok = TRUE, ![c].p = held[c]] /\ pc' = [pc EXCEPT ![c] = "done"]
       [] r.kind \in {"newer", "older"} ->
            IF held[c] = None \/ held[c].dt <= r.p.dt THEN ret' = ret /\ pc' = [pc EXCEPT ![c] = "write"]
            ELSE ret' = ret /\ pc' = [pc EXCEPT ![c] = "failed"]          \* an older profile is refused
       [] OTHER -> ret' = ret /\ pc' = [pc EXCEPT ![c] = "failed"]
  /\ UNCHANGED <<disk, tmpf, held, resp, off, srvdt, sent, crashes, calls>>
\* ---- in-place variant
OpenTrunc(c) == /\ Variant = "inplace" /\ pc[c] = "write"
                /\ disk' = [disk EXCEPT ![K(c)] = [exists |-> TRUE, content |-> <<>>]]
                /\ off' = [off EXCEPT ![c] = 0] /\ pc' = [pc EXCEPT ![c] = "opened"]
                /\ UNCHANGED <<tmpf, held, resp, ret, srvdt, sent, crashes, calls>>
\* one chunk written at offset `at` of a file: replaces what is there, extends the file, or leaves a hole before it
Filler == [p |-> None, i |-> 0]
\* @type: (Seq({p: {srv: Str, dt: Int, len: Int}, i: Int}), {p: {srv: Str, dt: Int, len: Int}, i: Int}, Int) => Seq({p: {srv: Str, dt: Int, len: Int}, i: Int});
Overlay(old, new, at) ==
  IF at + 1 <= Len(old) THEN [old EXCEPT ![at + 1] = new]
  ELSE IF at = Len(old) THEN Append(old, new)
  ELSE Append(Append(old, Filler), new)            \* (offsets are 0 or 1: the hole is one chunk)
WriteChunk(c) == /\ Variant = "inplace" /\ pc[c] = "opened"
                 /\ LET p == resp[c].p  ch == [p |-> p, i |-> off[c] + 1] IN
                    /\ disk' = [disk EXCEPT ![K(c)].content = Overlay(@, ch, off[c]), ![K(c)].exists = TRUE]
                    /\ off' = [off EXCEPT ![c] = @ + 1]
                    /\ pc' = [pc EXCEPT ![c] = IF off[c] + 1 = p.len THEN "closing" ELSE "opened"]
                 /\ UNCHANGED <<tmpf, held, resp, ret, srvdt, sent, crashes, calls>>
\* ---- atomic variant
WriteTmp(c) == /\ Variant = "atomic" /\ pc[c] = "write"
               /\ tmpf' = [tmpf EXCEPT ![c] = Chunks(resp[c].p)] /\ pc' = [pc EXCEPT ![c] = "renaming"]
               /\ UNCHANGED <<disk, held, resp, off, ret, srvdt, sent, crashes, calls>>
Rename(c) == /\ Variant = "atomic" /\ pc[c] = "renaming"
             /\ disk' = [disk EXCEPT ![K(c)] = [exists |-> TRUE, content |-> tmpf[c]]]
             /\ tmpf' = [tmpf EXCEPT ![c] = <<>>] /\ pc' = [pc EXCEPT ![c] = "closing"]
             /\ UNCHANGED <<held, resp, off, ret, srvdt, sent, crashes, calls>>
Finish(c) == /\ pc[c] = "closing"
             /\ ret' = [ret EXCEPT ![c].ok = TRUE, ![c].p = resp[c].p] /\ pc' = [pc EXCEPT ![c] = "done"]
             /\ UNCHANGED <<disk, tmpf, held, resp, off, srvdt, sent, crashes, calls>>
Return(c) == /\ pc[c] \in {"done", "failed"} /\ pc' = [pc EXCEPT ![c] = "idle"]
             /\ UNCHANGED <<disk, tmpf, held, resp, off, ret, srvdt, sent, crashes, calls>>
Crash(c) == /\ pc[c] \notin {"idle", "done", "failed"} /\ crashes < MaxCrash /\ crashes' = crashes + 1
            /\ pc' = [pc EXCEPT ![c] = "idle"] /\ tmpf' = [tmpf EXCEPT ![c] = <<>>]
            /\ UNCHANGED <<disk, held, resp, off, ret, srvdt, sent, calls>>
Next == \/ \E c \in Clients : Start(c) \/ Exchange(c) \/ Decide(c) \/ OpenTrunc(c) \/ WriteChunk(c) \/ WriteTmp(c)
                              \/ Rename(c) \/ Finish(c) \/ Return(c) \/ Crash(c)
        \/ \E s \in Servers : ServerBump(s)
Spec == Init /\ [][Next]_vars

(***************************************************************************)
(* The property                                                            *)
(***************************************************************************)
\* the cache is at all times absent or one complete profile
CacheWholeOrAbsent == \A k \in Keys : disk[k].exists => Whole(disk[k].content)
\* ... at least as new as any it held before
CacheNeverOlder == [][\A k \in Keys : (disk[k].exists /\ Whole(disk[k].content) /\ disk'[k].exists /\ Whole(disk'[k].content))
                                       => ProfOf(disk'[k].content).dt >= ProfOf(disk[k].content).dt]_vars
CacheNeverVanishes == [][\A k \in Keys : disk[k].exists => disk'[k].exists]_vars
\* a successful call returns a profile of its own server, asked with the date of the profile then held
SuccessFromOwnServer == \A c \in Clients : (pc[c] = "done" /\ ret[c].ok) => ret[c].p.srv = SrvOf[c]
AskedWithHeldDate == \A c \in Clients : pc[c] \in {"got", "write", "done"} => ret[c].asked = held[c].dt
\* a profile of one server never ends up in the cache of another
CacheBelongsToServer == \A c \in Clients : (disk[K(c)].exists /\ Whole(disk[K(c)].content)) => ProfOf(disk[K(c)].content).srv = SrvOf[c]
\* a failing call leaves the cache as it was (checked on the step that fails)
FailureLeavesCache == [][\A c \in Clients : (pc[c] # "failed" /\ pc'[c] = "failed") => disk' = disk]_vars
\* no call ever fails because of the state of the cache
StartNeverFailsOnCache == \A c \in Clients : pc[c] = "failed" => resp[c].kind # "none"
=============================================================================
