SPECIFICATION Spec
POSTCONDITION Consumed
