------------------------------ MODULE Trace_Net ------------------------------
(***************************************************************************)
(* Code -> spec for the client's network behaviour (C14).  The log holds   *)
(* histories: an "env" event (which URL the profile advertises, which      *)
(* hosts set cookies, the credentials in use) followed by "call" events,   *)
(* each with the POSTs the fake server observed during that call.  The     *)
(* trace specification carries the real state of OFXNet (jars, issued      *)
(* cookies) and reads every POST body itself (OFXFile) to classify the     *)
(* request and its credentials.                                            *)
(***************************************************************************)
EXTENDS OFXNet, OFXFile, OFXCompose, TraceBase

VARIABLES l, st, env
vars == <<l, st, env>>
Anonymous == <<97, 110, 111, 110, 121, 109, 111, 117, 115>> \o [i \in 1..23 |-> 48]
OFXMIME == <<97, 112, 112, 108, 105, 99, 97, 116, 105, 111, 110, 47, 120, 45, 111, 102, 120>>     \* application/x-ofx
STARSTAR == <<42, 47, 42>>                                                                          \* */*
HasSub(txt, pat) == \E i \in 1..(Len(txt) - Len(pat) + 1) : SubSeq(txt, i, i + Len(pat) - 1) = pat

\* what a POST body says: [ok, kind, creds]
Classify(file, userid, password) ==
  LET r == ReadFile(file) IN
  IF r.st # "ok" \/ r.run.verdict # "accept" THEN [ok |-> FALSE, kind |-> "?", creds |-> "?"]
  ELSE LET inst == r.run.inst
           u == At(inst, <<"signonmsgsrqv1", "sonrq", "userid">>)
           p == At(inst, <<"signonmsgsrqv1", "sonrq", "userpass">>)
           kind == IF HasEl(inst, "profmsgsrqv1") THEN "profile"
                   ELSE IF HasEl(inst, "signupmsgsrqv1") THEN "acctinfo"
                   ELSE IF HasEl(inst, "tax1099msgsrqv1") THEN "tax"
                   ELSE IF HasEl(inst, "bankmsgsrqv1") \/ HasEl(inst, "creditcardmsgsrqv1") \/ HasEl(inst, "invstmtmsgsrqv1") THEN "stmt"
                   ELSE "?" IN
       [ok |-> TRUE, kind |-> kind,
        creds |-> IF u = Str(Anonymous) /\ p = Str(Anonymous) THEN "anon"
                  ELSE IF u = Str(userid) /\ p = Str(password) THEN "user" ELSE "other"]

NoP == {env.nopersist[i] : i \in 1..Len(env.nopersist)}
\* the URL the profile advertises when the call is made (a server may move its service: e.adv; env.adv otherwise)
AdvOf(e) == IF "adv" \in DOMAIN e THEN e.adv ELSE env.adv
JudgeCall(e) ==
  LET exp == Posts(st, e.client, e.kind, e.mode, AdvOf(e), env.sets, NoP)
      n0 == Len(st.sent)
      want == SubSeq(exp.sent, n0 + 1, Len(exp.sent)) IN
  << <<"number-of-posts expected " \o ToString(Len(want)) \o " got " \o ToString(Len(e.posts)), Len(e.posts) = Len(want)>> >> \o
  (IF Len(e.posts) # Len(want) THEN <<>>
   ELSE FlattenSeq([i \in 1..Len(want) |->
          LET p == e.posts[i]
              c == Classify(p.file, env.userid, env.password) IN
          << <<"post-is-http-post", p.method = "POST">>,
             <<"post-body-is-ofx-request", c.ok>>,
             <<"post-host expected " \o want[i].host, p.host = want[i].host>>,
             <<"post-kind expected " \o want[i].kind, c.kind = want[i].kind>>,
             <<"post-credentials expected " \o want[i].creds, c.creds = want[i].creds>>,
             <<"post-cookie", p.cookie = want[i].cookie>>,
             <<"post-content-type", p.ctype = OFXMIME>>,
             <<"post-accept-admits-ofx", HasSub(p.accept, OFXMIME) \/ HasSub(p.accept, STARSTAR)>>,
             <<"post-user-agent", p.ua = env.useragent[e.client]>> >>]))

\* two institutions hosted by one provider: the same host, port, path, ORG and FID - only the query string tells them apart;
\* each client's profile request goes to ITS configured URL and its credentials to the URL ITS profile advertises
JudgeTenant(e) ==
  FlattenSeq([i \in 1..Len(e.posts) |->
     LET p == e.posts[i]
         c == Classify(p.file, e.userid, e.password) IN
     << <<"tenant-post-is-ofx-request", c.ok>>,
        <<"tenant-profile-goes-to-own-configured-url", c.kind = "profile" => p.host = "cfg-" \o e.tenant>>,
        <<"tenant-credentials-go-to-own-service-url", c.creds = "user" => p.host = "svc-" \o e.tenant>>,
        <<"tenant-profile-is-anonymous", (c.kind = "profile") <=> (c.creds = "anon")>> >>]) \o
  << <<"tenant-call-made-its-request", \E i \in 1..Len(e.posts) : Classify(e.posts[i].file, e.userid, e.password).creds = "user">> >>

Init == l = 1 /\ env = [none |-> 0] /\ st = [none |-> 0]
Next == /\ l <= Len(Log)
        /\ LET e == Log[l] IN
           IF e.op = "env"
           THEN /\ env' = e
                /\ st' = [jar |-> [c \in {"c1", "c2", "c3"} |-> [h \in Hosts |-> 0]], issued |-> <<>>, next |-> 1, sent |-> <<>>]
           ELSE IF e.op = "tcall"
           THEN Report(e.id, JudgeTenant(e)) /\ UNCHANGED <<st, env>>
           ELSE /\ Report(e.id, JudgeCall(e))
                /\ st' = Posts(st, e.client, e.kind, e.mode, AdvOf(e), env.sets, NoP) /\ UNCHANGED env
        /\ l' = l + 1
Spec == Init /\ [][Next]_vars
=============================================================================
