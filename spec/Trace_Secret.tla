------------------------------ MODULE Trace_Secret ------------------------------
(***************************************************************************)
(* Code -> spec for E02.  The log is a sequence of histories; each starts  *)
(* with an "env" event (the servers; empty keyring) and continues with the *)
(* calls recorded at the seams of the real ofxget, in order:               *)
(*   begin  (the options of the run)      krget  (keyring.get_password)    *)
(*   prompt (getpass)                     post   (one HTTP exchange)       *)
(*   krset  (keyring.set_password)        end    (outcome, keyring after)  *)
(* The specification's state is advanced with the step functions of        *)
(* OFXSecret; every event is checked against the enabling condition and    *)
(* the arguments the specification computes, and every state reached is    *)
(* checked against StateOK / StepOK.                                       *)
(***************************************************************************)
EXTENDS OFXSecret, TraceBase

VARIABLES l, st, live
vars == <<l, st, live>>

After(e, s0) ==
  CASE e.op = "begin" -> StBegin(s0, e.run)
    [] e.op = "krget" -> StKrGet(s0)
    [] e.op = "prompt" -> StPrompt(s0, e.typed)
    [] e.op = "post" -> IF s0.legs # <<>> THEN StPost(s0, e.accepted) ELSE s0
    [] e.op = "krset" -> IF s0.run.srv \in DOMAIN s0.store THEN StKrSet(s0) ELSE s0
    [] e.op = "end" -> StEnd(s0)
    [] OTHER -> s0

Judge(e, s0) ==
  LET t == After(e, s0) IN
  (CASE e.op = "begin" -> << <<"begin-only-between-runs pc=" \o s0.pc, s0.pc = "idle">> >>
     [] e.op = "krget" -> << <<"keyring-read-allowed pc=" \o s0.pc, EnKrGet(s0)>>,
                             <<"keyring-read-own-server", e.srv = s0.run.srv>>,
                             <<"keyring-read-result", EnKrGet(s0) => e.result = KrResult(s0)>> >>
     [] e.op = "prompt" -> << <<"prompt-only-when-nothing-found pc=" \o s0.pc, EnPrompt(s0)>> >>
     [] e.op = "post" -> << <<"exchange-expected pc=" \o s0.pc, EnPost(s0)>>,
                            <<"exchange-order", EnPost(s0) => e.leg = Head(s0.legs)>>,
                            <<"exchange-password leg=" \o e.leg, EnPost(s0) => e.pw = LegPw(s0)>> >>
     [] e.op = "krset" -> << <<"keyring-write-allowed pc=" \o s0.pc, EnKrSet(s0)>>,
                             <<"keyring-write-own-server", e.srv = s0.run.srv>>,
                             <<"keyring-write-password-used", e.pw = s0.used>> >>
     [] e.op = "end" -> << <<"run-ends-complete pc=" \o s0.pc, EnEnd(s0)>>,
                           <<"run-outcome " \o e.exc, EnEnd(s0) => e.ok = (s0.pc = "done")>>,
                           <<"keyring-after", e.store = s0.store>>,
                           <<"persisted-skipprofile", e.skip = s0.skip>>,
                           <<"profile-cache-after", e.cached = s0.cached>>,
                           <<"configuration-sections-after", e.cfg = s0.cfg>>,
                           <<"dry-run-prints-dummy", s0.run.dry => e.printedpw = Dummy>>,
                           <<"prompt-count", e.prompts = s0.prompts>> >>
     [] OTHER -> << <<"unknown-event", FALSE>> >>)
  \o << <<"state-invariants", StateOK(t)>>, <<"keyring-changes-only-by-save", StepOK(s0, t)>> >>

Init == l = 1 /\ st = InitState({"s1"}) /\ live = FALSE
Next == /\ l <= Len(Log)
        /\ LET e == Log[l] IN
           IF e.op = "env"
           THEN st' = InitState({e.servers[i] : i \in 1..Len(e.servers)}) /\ live' = TRUE
           ELSE IF e.op = "begin" /\ ~Modelled(e.run)
           THEN st' = st /\ live' = FALSE /\ Report(e.id, <<>>)          \* outside the model: unjudged until the next begin
           ELSE IF ~live /\ e.op # "begin"
           THEN (IF e.op = "end" THEN st' = [st EXCEPT !.store = e.store, !.skip = e.skip, !.cached = e.cached, !.cfg = e.cfg] ELSE st' = st) /\ live' = live /\ Report(e.id, <<>>)
           ELSE LET s0 == Settle(st) IN
                /\ Report(e.id, Judge(e, s0))
                /\ st' = After(e, s0) /\ live' = TRUE
        /\ l' = l + 1
Spec == Init /\ [][Next]_vars
=============================================================================
