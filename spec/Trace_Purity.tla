------------------------------ MODULE Trace_Purity ------------------------------
(***************************************************************************)
(* Code -> spec for C17: the memo specification over recorded calls.       *)
(***************************************************************************)
EXTENDS TraceBase, FiniteSets

VARIABLES l, memo
vars == <<l, memo>>
Key(e) == <<e.fn, e.i>>
Judge(e) ==
  << <<"input-unchanged " \o e.fn, e.iafter = e.i>>,
     <<"same-input-same-result " \o e.fn \o " [" \o e.ctx \o "]", Key(e) \in DOMAIN memo => memo[Key(e)] = e.o>> >>
Init == l = 1 /\ memo = [k \in {} |-> ""]
Next == /\ l <= Len(Log)
        /\ LET e == Log[l] IN
           /\ Report(e.id, Judge(e))
           /\ memo' = IF Key(e) \in DOMAIN memo THEN memo ELSE memo @@ (Key(e) :> e.o)
        /\ l' = l + 1
Spec == Init /\ [][Next]_vars
=============================================================================
