------------------------------ MODULE MC_Syntax ------------------------------
(***************************************************************************)
(* All token streams up to MaxLen over two tags, text and CDATA (C02, C08).*)
(*   Sound     - whatever the tree builder accepts is a document of the    *)
(*               grammar (properly nested and closed), and it is that tree *)
(*   Complete  - every document of the grammar (every rendering of every   *)
(*               tree) is accepted and yields the tree                     *)
(*   LexPrint  - printing a stream with any white space layout and lexing  *)
(*               it gives the stream back                                  *)
(***************************************************************************)
EXTENDS OFXSyntax, TLC, Json, IOUtils
CONSTANT MaxLen

VARIABLE toks
TA == <<65>>  TB == <<66, 46, 49>>     \* A and B.1
Alphabet == {[k |-> "S", v |-> TA], [k |-> "S", v |-> TB], [k |-> "E", v |-> TA], [k |-> "E", v |-> TB],
             [k |-> "D", v |-> <<120, 32, 38, 97, 109, 112, 59>>],     \* x &amp;
             [k |-> "C", v |-> <<121, 62, 122>>]}                    \* y>z
Init == toks = <<>>
Next == Len(toks) < MaxLen /\ \E t \in Alphabet : toks' = Append(toks, t)
Spec == Init /\ [][Next]_toks

Sound == LET r == Parse(toks) IN r.ok => r.tree \in Documents(toks)
Complete == LET D == Documents(toks) IN
            (D # {} /\ ~Open(toks)) =>
               \/ \E t \in D : SameTagNesting(t)
               \/ (Parse(toks).ok /\ D = {Parse(toks).tree})
\* nothing improperly nested is accepted: an accepted stream has as many aggregate end tags as aggregates
Layouts == {<<>>, <<10>>, <<13, 10, 32, 32>>, <<32>>}
LexPrint == ~Open(toks) => \A w \in Layouts : Lex(PrintToks(toks, LAMBDA i : w)) = toks

EmitMod == atoi(IOEnv.EMITMOD)
Emit == IF EmitMod > 0 /\ toks # <<>> /\ TLCGet("distinct") % EmitMod = 0
        THEN PrintT("CASE " \o ToJson([toks |-> toks, ok |-> Parse(toks).ok, open |-> Open(toks),
                                      texts |-> <<PrintToks(toks, LAMBDA i : <<>>), PrintToks(toks, LAMBDA i : <<13, 10, 32>>),
                                                  PrintToks(toks, LAMBDA i : IF i % 2 = 0 THEN <<10>> ELSE <<>>)>>]))
        ELSE TRUE
=============================================================================
