SPECIFICATION Spec
POSTCONDITION Consumed
