------------------------------ MODULE Trace_TreeLife ------------------------------
(***************************************************************************)
(* Code -> spec for E04: histories of parse() / convert() calls on one     *)
(* real OFXTree; an "env" event starts a history with a new tree.          *)
(***************************************************************************)
EXTENDS OFXTreeLife, TraceBase
VARIABLES l, st
vars == <<l, st>>

Judge(e) ==
  CASE e.op = "parse" ->
         LET t == StParse(st, e.kind, e.doc) IN
         << <<"parse-outcome expected " \o ParseOutcome(e.kind, e.doc), e.out = ParseOutcome(e.kind, e.doc)>>,
            <<"header-held-after-parse expected " \o t.hdr, e.hdr = t.hdr>>,
            <<"root-held-after-parse expected " \o t.root, e.root = t.root>>,
            <<"caller-file-left-open", CallerFileStaysOpen(e.kind) => e.stillopen>>,
            <<"no-descriptor-leaked", e.fdleak = 0>>,
            <<"sound", RootIsValidDoc(t) /\ NoRootWithoutHeader(t)>> >>
    [] e.op = "convert" ->
         << <<"convert-outcome expected " \o ConvertOutcome(st), e.out = ConvertOutcome(st)>>,
            <<"convert-returns-model-of-root", e.out = "ok" => e.model = ConvertResult(st)>>,
            <<"convert-leaves-tree", e.hdr = st.hdr /\ e.root = st.root>> >>

Init == l = 1 /\ st = Empty
Next == /\ l <= Len(Log)
        /\ LET e == Log[l] IN
           IF e.op = "env" THEN st' = Empty
           ELSE /\ Report(e.id, Judge(e))
                /\ st' = IF e.op = "parse" THEN StParse(st, e.kind, e.doc) ELSE st
        /\ l' = l + 1
Spec == Init /\ [][Next]_vars
=============================================================================
