SPECIFICATION Spec
CONSTANTS
  Years = {2000}
  OffStep = 60
  Mode = "ty"
INVARIANT RoundTrip
INVARIANT Canonical
INVARIANT NonePasses
INVARIANT WrongTypeRefused
INVARIANT WrittenIsLexical
INVARIANT Limits
CONSTRAINT Emit
