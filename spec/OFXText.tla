------------------------------ MODULE OFXText ------------------------------
(***************************************************************************)
(* Text is a sequence of Unicode code points.  Numbers wider than 31 bits  *)
(* are digit sequences.  Everything else in the specification builds on    *)
(* these helpers.                                                          *)
(***************************************************************************)
EXTENDS Integers, Sequences, FiniteSets, SequencesExt, Functions

LT == 60  GT == 62  AMP == 38  SEMI == 59  SLASH == 47  BANG == 33
LBR == 91  RBR == 93  DOT == 46  COMMA == 44  COLON == 58  PLUS == 43  MINUS == 45
SP == 32  TAB == 9  LF == 10  CR == 13  D0 == 48  QUOT == 34  APOS == 39
NBSP == 160

IsDigit(c) == c \in 48..57
IsUpper(c) == c \in 65..90
IsLower(c) == c \in 97..122
IsWS(c) == c \in {32, 9, 10, 13, 11, 12}
AllDigits(s) == \A i \in 1..Len(s) : IsDigit(s[i])

\* value of a short digit string (< 10 digits) as a TLC integer
Num(s) == FoldLeft(LAMBDA acc, c : acc * 10 + (c - 48), 0, s)

\* digit sequence (values 0..9) of a digit text, leading zeros stripped (zero = <<0>>)
RECURSIVE StripZeros(_)
StripZeros(d) == IF Len(d) > 1 /\ d[1] = 0 THEN StripZeros(Tail(d)) ELSE d
Digits(s) == StripZeros([i \in 1..Len(s) |-> s[i] - 48])
DigitsText(d) == [i \in 1..Len(d) |-> d[i] + 48]
IsZeroD(d) == \A i \in 1..Len(d) : d[i] = 0

\* decimal text of a natural number, and zero-padded to a width
RECURSIVE NatText(_)
NatText(n) == IF n < 10 THEN <<n + 48>> ELSE Append(NatText(n \div 10), (n % 10) + 48)
RECURSIVE Pad(_, _)
Pad(n, w) == IF w = 0 THEN <<>> ELSE Append(Pad(n \div 10, w - 1), (n % 10) + 48)

IndexOf(s, c) == LET S == {i \in 1..Len(s) : s[i] = c} IN
                 IF S = {} THEN 0 ELSE CHOOSE i \in S : \A j \in S : i <= j
LastIndexOf(s, c) == LET S == {i \in 1..Len(s) : s[i] = c} IN
                     IF S = {} THEN 0 ELSE CHOOSE i \in S : \A j \in S : i >= j
Count(s, c) == Cardinality({i \in 1..Len(s) : s[i] = c})

StartsAt(txt, i, pat) == i + Len(pat) - 1 <= Len(txt) /\ SubSeq(txt, i, i + Len(pat) - 1) = pat

FirstNonWS(s) == LET S == {i \in 1..Len(s) : ~IsWS(s[i])} IN
                 IF S = {} THEN 0 ELSE CHOOSE i \in S : \A j \in S : i <= j
LastNonWS(s) == LET S == {i \in 1..Len(s) : ~IsWS(s[i])} IN
                IF S = {} THEN 0 ELSE CHOOSE i \in S : \A j \in S : i >= j
Trim(s) == IF FirstNonWS(s) = 0 THEN <<>> ELSE SubSeq(s, FirstNonWS(s), LastNonWS(s))
IsBlank(s) == FirstNonWS(s) = 0

(***************************************************************************)
(* OFX character entities (OFX 2.3.2.1 plus the XML ones FIs mix in).      *)
(***************************************************************************)
E_AMP  == <<38, 97, 109, 112, 59>>         \* &amp;
E_LT   == <<38, 108, 116, 59>>             \* &lt;
E_GT   == <<38, 103, 116, 59>>             \* &gt;
E_NBSP == <<38, 110, 98, 115, 112, 59>>    \* &nbsp;
E_APOS == <<38, 97, 112, 111, 115, 59>>    \* &apos;
E_QUOT == <<38, 113, 117, 111, 116, 59>>   \* &quot;
Entities == << <<E_AMP, 38>>, <<E_LT, 60>>, <<E_GT, 62>>, <<E_NBSP, 32>>, <<E_APOS, 39>>, <<E_QUOT, 34>> >>

EntityAt(s, i) == LET S == {k \in 1..Len(Entities) : StartsAt(s, i, Entities[k][1])} IN
                  IF S = {} THEN 0 ELSE CHOOSE k \in S : TRUE

\* single left-to-right decoding pass (iterative: texts may be 10000 characters long)
Decode(s) ==
  IF \A i \in 1..Len(s) : s[i] # 38 THEN s
  ELSE FoldLeft(LAMBDA st, i :
                  IF st.skip > 0 THEN [st EXCEPT !.skip = @ - 1]
                  ELSE LET k == IF s[i] = 38 THEN EntityAt(s, i) ELSE 0 IN
                       IF k = 0 THEN [st EXCEPT !.acc = Append(@, s[i])]
                       ELSE [acc |-> Append(st.acc, Entities[k][2]), skip |-> Len(Entities[k][1]) - 1],
                [acc |-> <<>>, skip |-> 0], [i \in 1..Len(s) |-> i]).acc

\* wire escaping of character data: & < > must be escaped
Escape(s) == FoldLeft(LAMBDA acc, c : IF c = 38 THEN acc \o E_AMP
                                      ELSE IF c = 60 THEN acc \o E_LT
                                      ELSE IF c = 62 THEN acc \o E_GT
                                      ELSE Append(acc, c), <<>>, s)

\* on the wire: no raw '<', and every '&' starts an entity (named or numeric)
IsNameChar(c) == IsDigit(c) \/ IsUpper(c) \/ IsLower(c) \/ c = 35
AmpStartsEntity(s, i) ==
  \E j \in (i + 2)..Len(s) : s[j] = 59 /\ \A k \in (i + 1)..(j - 1) : IsNameChar(s[k])
WireClean(s) == \A i \in 1..Len(s) : s[i] # 60 /\ (s[i] = 38 => AmpStartsEntity(s, i))

HasEntityLike(s) == \E i \in 1..Len(s) : s[i] = 38 /\ EntityAt(s, i) # 0
=============================================================================
