------------------------------ MODULE MC_Schema ------------------------------
(***************************************************************************)
(* Static schema invariants (C13) and the minimal document of every class: *)
(* one state per class; every invariant is a first-order formula over the  *)
(* exported declarations.                                                  *)
(***************************************************************************)
EXTENDS OFXAggregate, Json, IOUtils

VARIABLE c
Init == c \in Classes
Next == UNCHANGED c
Spec == Init /\ [][Next]_c

A(i) == Attrs(c)[i]
N == Len(Attrs(c))
\* the minimal document is accepted, has no unknown tag, and every sample text is a value
MinDocAccepted == LET r == RunDoc(MinDoc(c)) IN r.verdict = "accept" /\ r.warn = 0 /\ r.inst.cls = c
\* every sub/list child's attribute is named after its class (so that it is found by tag), and that class exists
ChildNamedAfterClass == \A i \in 1..N : A(i).k \in {"sub", "lagg"} => (A(i).cls \in Classes /\ A(i).tag = A(i).cls)
FoundByTag == Schema[c].bytag
NoDuplicateTags == \A i, j \in 1..N : i # j => A(i).tag # A(j).tag
\* every exclusivity group names existing optional children: single ones or repeated AGGREGATES (whose members arrive as
\* positional arguments and are counted by class); a repeated data element cannot be counted
GroupsWellFormed == \A m \in Schema[c].om \cup Schema[c].rm : \A a \in m :
                       LET i == AttrByName(c, a) IN i # 0 /\ A(i).k # "lelem" /\ ~A(i).req /\ A(i).k # "unsup"
\* groups declared anywhere in the MRO are in force in the class
GroupsInForce == Schema[c].om = Schema[c].omf /\ Schema[c].rm = Schema[c].rmf
\* the writer puts list members where the RUN of adjacent list children they belong to starts (unsupported children are
\* never written and do not separate a run): two list children separated by a written child must hold different classes,
\* and repeated data elements cannot be told apart by class at all
SameRun(i, j) == \A k \in i..j : IsList(A(k)) \/ A(k).k = "unsup"
ListRunsTellMembersApart ==
  \A i, j \in 1..N : (i < j /\ IsList(A(i)) /\ IsList(A(j)) /\ ~SameRun(i, j)) =>
     (A(i).k = "lagg" /\ A(j).k = "lagg" /\ A(i).cls # A(j).cls)
\* nothing in a class body is a declaration gone wrong (an Element inside a tuple - a stray comma -, an Element class that was
\* never instantiated): such a child is declared in the source and can never be built
DeclarationsWellFormed == Schema[c].odd = {}
\* repeated data elements need the ElementList machinery
ListElementsInElementList == (\E i \in 1..N : A(i).k = "lelem") => Schema[c].elist
Emit == PrintT("MIN " \o ToJson([cls |-> c, doc |-> MinDoc(c)]))
=============================================================================
