SPECIFICATION Spec
CONSTANTS
  Years = {1999, 2000, 2024}
  OffStep = 60
  Mode = "dtw"
INVARIANT WriteOK
INVARIANT WriteSome
CONSTRAINT Emit
