------------------------------ MODULE TraceBase ------------------------------
(***************************************************************************)
(* Common part of the stateless trace specifications: the log recorded     *)
(* from the real code is consumed one event per step; every event is       *)
(* judged (verdicts are total), a rejected clause is reported as           *)
(*   MISMATCH <event id> <clause>                                          *)
(* and the number of consumed events is reported by the postcondition.     *)
(***************************************************************************)
EXTENDS Integers, Sequences, TLC, TLCExt, Json, IOUtils

Log == ndJsonDeserialize(IOEnv.TRACE_FILE)

\* clauses: sequence of <<name, holds>>
Report(id, clauses) ==
  IF clauses = <<>> THEN PrintT("UNJUDGED " \o id) ELSE
  \A i \in 1..Len(clauses) : IF clauses[i][2] THEN TRUE ELSE PrintT("MISMATCH " \o id \o " " \o clauses[i][1])

Consumed == PrintT("CONSUMED " \o ToString(TLCGet("stats").diameter - 1))
=============================================================================
