SPECIFICATION Spec
POSTCONDITION Consumed
