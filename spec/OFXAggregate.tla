------------------------------ MODULE OFXAggregate ------------------------------
(***************************************************************************)
(* Schema-driven document machine: the conversion of an element tree into  *)
(* a model instance as a state machine over typed tokens                   *)
(*    [e |-> "open",  tag, vendor]           start of an aggregate         *)
(*    [e |-> "leaf",  tag, vendor, text]     data element                  *)
(*    [e |-> "close"]                        end of the aggregate          *)
(* with a stack of frames.  SchemaData (generated from the live classes)   *)
(* supplies the declarations; the rules enforced are those the classes     *)
(* declare or inherit (C04), plus the extra-rule table transcribed from    *)
(* the OFX prose quoted in the classes that override validation.           *)
(* Instance: [cls, els (sequence of <<attr, value|instance>>), mem].       *)
(***************************************************************************)
EXTENDS OFXTypes, SchemaData, TLC

Classes == DOMAIN Schema
Attrs(c) == Schema[c].attrs
IsList(a) == a.k \in {"lagg", "lelem"}
AttrIdx(c, tag) == LET S == {i \in 1..Len(Attrs(c)) : Attrs(c)[i].tag = tag} IN
                   IF S = {} THEN 0 ELSE CHOOSE i \in S : \A j \in S : i <= j
AttrByName(c, a) == LET S == {i \in 1..Len(Attrs(c)) : Attrs(c)[i].a = a} IN
                    IF S = {} THEN 0 ELSE CHOOSE i \in S : TRUE

(***************************************************************************)
(* Extra rules (OFX prose) of the classes that override validation         *)
(***************************************************************************)
MinOne == {"MFACHALLENGERS", "MSGSETLIST", "MSGSETCORE", "CONTRIBINFO", "TAX1099MSGSRQV1", "TAX1099MSGSRSV1",
           "TAX1099MSGSETV1", "ACCTINFO"}
Modelled == MinOne \cup {"SONRQ", "EXTDPMT", "EXTDPAYEE", "TAX1099RS", "TAX1099R_V100", "CONTRIBSECURITY", "OFX",
                         "TAX1099MISC_V100"}
Has(f, a) == a \in f.seen
MemClasses(f) == {f.memtags[i] : i \in 1..Len(f.memtags)}
Extra(f) ==
  /\ (f.cls \in MinOne => f.memtags # <<>>)
  /\ (f.cls = "ACCTINFO" => \A i, j \in 1..Len(f.memtags) : i # j => f.memtags[i] # f.memtags[j])
  /\ (f.cls = "SONRQ" => /\ ((Has(f, "userid") /\ Has(f, "userpass")) \/ Has(f, "userkey"))
                         /\ ~((Has(f, "userid") \/ Has(f, "userpass")) /\ Has(f, "userkey")))
  /\ (f.cls = "EXTDPMT" => (Has(f, "extdpmtdsc") \/ "EXTDPMTINV" \in MemClasses(f)))
  /\ (f.cls = "EXTDPAYEE" => (Has(f, "payeeid") => Has(f, "idscope") /\ Has(f, "name")))
  /\ (f.cls = "TAX1099RS" => \E i \in 1..Len(f.memtags) : f.memtags[i] # "FIDIRECTDEPOSITINFO")
  /\ (f.cls = "TAX1099R_V100" => ((Has(f, "grossdist") \/ Has(f, "taxamt") \/ Has(f, "fedtaxwh")) => Has(f, "irasepsimp")))
  /\ (f.cls = "CONTRIBSECURITY" => LET S == f.seen \ {"secid"} IN
        /\ S # {}
        /\ ((\A a \in S : a \in PctNames) \/ (\A a \in S : a \in AmtNames)))
  /\ (f.cls = "OFX" => ((\A a \in f.keys : a \in RqNames) \/ (\A a \in f.keys : a \in RsNames)))
\* a class that overrides validation and is not in the table: its rejections are not judged
Unmodelled(c) == Schema[c].custom /\ c \notin Modelled

Complete(f) ==
  /\ \A i \in 1..Len(Attrs(f.cls)) : Attrs(f.cls)[i].req => Attrs(f.cls)[i].a \in f.seen
  /\ \A m \in Schema[f.cls].om : Cardinality(m \cap f.seen) <= 1        \* declared anywhere in the MRO
  /\ \A m \in Schema[f.cls].rm : Cardinality(m \cap f.seen) = 1
  /\ Extra(f)

(***************************************************************************)
(* The machine                                                             *)
(***************************************************************************)
Frame(c) == [cls |-> c, idx |-> 0, plist |-> FALSE, seen |-> {}, keys |-> {}, els |-> <<>>, mem |-> <<>>, memtags |-> <<>>]
InstOf(f) == [cls |-> f.cls, els |-> f.els, mem |-> f.mem]
DocSt0 == [stack |-> <<>>, skip |-> 0, verdict |-> "run", why |-> "", warn |-> 0, inst |-> [cls |-> "", els |-> <<>>, mem |-> <<>>], open |-> FALSE,
        lexok |-> TRUE]     \* every data element met so far is lexically valid for its declared type (C11)
Rej(st, why) == [st EXCEPT !.verdict = "reject", !.why = why]
\* bind a value (or a finished instance) into the top frame under attribute a
Bind(f, a, v) == IF IsList(a) THEN [f EXCEPT !.mem = Append(@, v), !.memtags = Append(@, a.tag)]
                 ELSE [f EXCEPT !.els = Append(@, <<a.a, v>>)]
Top(st) == st.stack[Len(st.stack)]

StepDoc(st, tok) ==
  IF st.verdict # "run" THEN st
  ELSE IF st.skip > 0 THEN
       (CASE tok.e = "open" -> [st EXCEPT !.skip = @ + 1]
          [] tok.e = "close" -> [st EXCEPT !.skip = @ - 1]
          [] OTHER -> st)
  ELSE IF tok.e = "close" THEN
       LET f == Top(st) IN
       IF ~Complete(f) THEN (IF Unmodelled(f.cls) THEN [st EXCEPT !.verdict = "unjudged", !.why = "unmodelled custom validation"]
                             ELSE Rej(st, "incomplete " \o f.cls))
       ELSE IF Len(st.stack) = 1 THEN [st EXCEPT !.stack = <<>>, !.verdict = "accept", !.inst = InstOf(f)]
       ELSE LET p == st.stack[Len(st.stack) - 1]
                a == Attrs(p.cls)[p.idx] IN
            [st EXCEPT !.stack = Append(SubSeq(st.stack, 1, Len(st.stack) - 2), Bind(p, a, InstOf(f)))]
  ELSE IF st.stack = <<>> THEN
       (IF tok.e = "open" /\ tok.tag \in Classes THEN [st EXCEPT !.stack = <<Frame(tok.tag)>>] ELSE Rej(st, "root"))
  ELSE LET f == Top(st)
           j == IF tok.vendor THEN 0 ELSE AttrIdx(f.cls, tok.tag) IN
       IF j = 0 THEN [st EXCEPT !.skip = IF tok.e = "open" THEN 1 ELSE 0,
                                !.warn = IF tok.vendor THEN @ ELSE @ + 1]       \* unknown / vendor tag: skipped
       ELSE LET a == Attrs(f.cls)[j] IN
            IF ~(j > f.idx \/ (IsList(a) /\ f.plist)) THEN Rej(st, "order")
            ELSE IF ~IsList(a) /\ a.a \in f.keys THEN Rej(st, "duplicate")
            ELSE LET f2 == [f EXCEPT !.idx = j, !.plist = IsList(a),
                                     \* (a repeated aggregate child counts as present for the exclusivity groups once a member was met)
                                     !.seen = IF a.k \in {"unsup", "lelem"} THEN @ ELSE @ \cup {a.a},
                                     !.keys = IF IsList(a) THEN @ ELSE @ \cup {a.a}]
                     st2 == [st EXCEPT !.stack[Len(st.stack)] = f2] IN
                 CASE a.k = "unsup" -> [st2 EXCEPT !.skip = IF tok.e = "open" THEN 1 ELSE 0]
                   [] tok.e = "leaf" ->
                        IF a.k \in {"elem", "lelem"}
                        THEN LET v == Conv(TypeTable[a.ty], tok.text)
                                 lx == st.lexok /\ Lexical(TypeTable[a.ty],
                                          IF TypeTable[a.ty].k \in {"str", "nag"} THEN Decode(tok.text) ELSE tok.text) IN
                             IF v = RejectV THEN [Rej(st, "value") EXCEPT !.lexok = lx]
                             ELSE IF v = UnjudgedV \/ v = NoneV THEN [st EXCEPT !.verdict = "unjudged", !.why = "value left open", !.lexok = lx]
                             ELSE [st2 EXCEPT !.stack[Len(st.stack)] = Bind(f2, a, v), !.lexok = lx]
                        ELSE Rej(st, "text in an aggregate slot")
                   [] OTHER -> IF a.k \in {"sub", "lagg"}
                               THEN (IF tok.tag \in Classes /\ Schema[tok.tag].bytag
                                     THEN [st2 EXCEPT !.stack = Append(@, Frame(a.cls))]
                                     ELSE Rej(st, "class not found by tag"))
                               ELSE Rej(st, "aggregate in an element slot")
RunDoc(doc) == FoldLeft(StepDoc, DocSt0, doc)

(***************************************************************************)
(* Writing an instance: children in declaration order, list members in     *)
(* their own order in the list slot                                        *)
(***************************************************************************)
LeafTok(tag, text) == [e |-> "leaf", tag |-> tag, vendor |-> FALSE, text |-> text]
OpenTok(tag) == [e |-> "open", tag |-> tag, vendor |-> FALSE, text |-> <<>>]
CloseTok == [e |-> "close", tag |-> "", vendor |-> FALSE, text |-> <<>>]

(***************************************************************************)
(* Minimal valid document of a class (required children only, the first    *)
(* member of a required group, one member where a list must be non-empty)  *)
(***************************************************************************)
Forced(c) == CASE c = "SONRQ" -> {"userid", "userpass"}
               [] c = "EXTDPMT" -> {"extdpmtdsc"}
               [] c = "CONTRIBSECURITY" -> {"pretaxcontribpct"}
               [] OTHER -> {}
FirstOfGroup(c, m) == CHOOSE a \in m : \A b \in m : AttrByName(c, a) <= AttrByName(c, b)
FirstOfReqMutex(c) == {FirstOfGroup(c, m) : m \in Schema[c].rm}
ForcedList(c) == CASE c = "TAX1099RS" -> "tax1099misc_v100" [] c = "ACCTINFO" -> "bankacctinfo" [] OTHER -> ""
FirstList(c) == LET S == {i \in 1..Len(Attrs(c)) : IsList(Attrs(c)[i])} IN
                IF S = {} THEN 0 ELSE CHOOSE i \in S : \A j \in S : i <= j
Wanted(c, i) == LET a == Attrs(c)[i] IN
                  \/ a.req \/ a.a \in Forced(c) \/ a.a \in FirstOfReqMutex(c)
                  \/ (c \in MinOne /\ ForcedList(c) = "" /\ i = FirstList(c))
                  \/ a.a = ForcedList(c)
\* SampleText (SchemaData): one text per type, chosen by the exporter and validated here by Conv
RECURSIVE MinDoc(_)
MinDoc(c) ==
  <<OpenTok(c)>> \o
  FoldLeft(LAMBDA acc, i : IF Wanted(c, i)
                           THEN LET a == Attrs(c)[i] IN
                                IF a.k \in {"sub", "lagg"} THEN acc \o MinDoc(a.cls)
                                ELSE Append(acc, LeafTok(a.tag, SampleText[a.ty]))
                           ELSE acc, <<>>, [i \in 1..Len(Attrs(c)) |-> i]) \o
  <<CloseTok>>
=============================================================================
