SPECIFICATION Spec
POSTCONDITION Consumed
