------------------------------ MODULE Trace_Doc ------------------------------
(***************************************************************************)
(* Code -> spec for model construction (C01, C03, C04, C07, C13): every    *)
(* event is one attempt to build an instance from an abstract document,    *)
(* through Aggregate.from_etree or through keyword construction; TLC runs  *)
(* the document machine on the same tokens.                                *)
(*   e.expect: "" | "accept" | "reject"  - what the generator intended     *)
(*   e.same:   id-independent: the instance obtained from the twin document*)
(*             (C07: with unknown tags inserted) when e.hastwin            *)
(***************************************************************************)
EXTENDS OFXAggregate, TraceBase

VARIABLE l

Judge(e) ==
  LET r == RunDoc(e.doc) IN
  IF r.verdict = "unjudged" THEN <<>>
  ELSE IF r.verdict = "accept"
  THEN << \* route "kwnone" spells every absent child out as keyword=None; the property promises nothing about
          \* ACCEPTING that spelling (OFX.validate_args looks at keyword names only), so there only refusals are judged
          <<"accepts-valid [" \o e.label \o "]", e.route = "kwnone" \/ e.out.ok>>,
          <<"model-equals-document [" \o e.label \o "]", e.out.ok => e.out.inst = r.inst>>,
          <<"generator-intended-reject [" \o e.label \o "]", e.expect # "reject">>,
          <<"twin-model-equal [" \o e.label \o "]", (e.hastwin /\ e.out.ok) => e.out.inst = e.twin>> >>
  ELSE IF r.verdict = "reject"
  THEN << <<"rejects-" \o r.why \o " [" \o e.label \o "]", ~e.out.ok>>,
          <<"generator-intended-accept [" \o e.label \o "] " \o r.why, e.expect # "accept">> >>
  ELSE << <<"document-incomplete", FALSE>> >>

Init == l = 1
Next == l <= Len(Log) /\ Report(Log[l].id, Judge(Log[l])) /\ l' = l + 1
Spec == Init /\ [][Next]_l
=============================================================================
