------------------------------ MODULE APA_Net ------------------------------
(***************************************************************************)
(* Apalache (symbolic): the cookie invariants of C14 as an INDUCTIVE       *)
(* invariant of the exchange machine - for histories of ANY length and 3   *)
(* clients, one of them not persisting cookies (TLC checks them up to      *)
(* MaxCalls).  The machine is the one of spec/OFXNet.tla (Post / Posts are *)
(* shared, not copied); only the variables are typed here.                 *)
(*   Init => IndInv                   apalache-mc check --init=Init    --inv=IndInv --length=0 *)
(*   IndInv /\ Next => IndInv'        apalache-mc check --init=IndInit --inv=IndInv --length=1 *)
(* Controls: WeakInv (IndInv without JarOK) is NOT inductive; IndInit      *)
(* admits states with several POSTs (Trivial is violated).                 *)
(***************************************************************************)
EXTENDS OFXNet, Apalache
Clients == {"c1", "c2", "c3"}
NoPersist == {"c3"}
VARIABLES
  \* @type: Str;
  adv,
  \* @type: Str -> Bool;
  sets,
  \* @type: Str -> (Str -> Int);
  jar,
  \* @type: Seq(<<Str, Str>>);
  issued,
  \* @type: Int;
  next,
  \* @type: Seq({client: Str, host: Str, creds: Str, kind: Str, cookie: Int, mode: Str});
  sent
Init == /\ adv \in Hosts /\ sets \in [Hosts -> BOOLEAN]
        /\ jar = [c \in Clients |-> [h \in Hosts |-> 0]]
        /\ issued = <<>> /\ next = 1 /\ sent = <<>>
Call(c, kind, mode) ==
  LET st == Posts([jar |-> jar, issued |-> issued, next |-> next, sent |-> sent], c, kind, mode, adv, sets, NoPersist) IN
  /\ jar' = st.jar /\ issued' = st.issued /\ next' = st.next /\ sent' = st.sent
  /\ UNCHANGED <<adv, sets>>
Next == \E c \in Clients : \E k \in Kinds : \E m \in Modes : Call(c, k, m)
CookieIsolation == \A i \in DOMAIN sent : sent[i].cookie # 0 =>
                      (sent[i].cookie \in DOMAIN issued /\ issued[sent[i].cookie] = <<sent[i].client, sent[i].host>>)
NonPersistingSendsNone == \A i \in DOMAIN sent : sent[i].client \in NoPersist => sent[i].cookie = 0
JarOK == \A c \in Clients : \A h \in Hosts : jar[c][h] # 0 =>
            (jar[c][h] \in DOMAIN issued /\ issued[jar[c][h]] = <<c, h>>)
TypeOK == /\ adv \in Hosts /\ sets \in [Hosts -> BOOLEAN]
          /\ jar \in [Clients -> [Hosts -> Nat]]
          /\ next = Len(issued) + 1
          /\ \A i \in DOMAIN sent : sent[i].client \in Clients /\ sent[i].host \in Hosts
          /\ \A i \in DOMAIN issued : issued[i][1] \in Clients /\ issued[i][2] \in Hosts
NoPersistJarEmpty == \A c \in NoPersist : \A h \in Hosts : jar[c][h] = 0
IndInv == TypeOK /\ JarOK /\ NoPersistJarEmpty /\ CookieIsolation /\ NonPersistingSendsNone
IndInit == /\ adv \in Hosts /\ sets \in [Hosts -> BOOLEAN]
           /\ jar \in [Clients -> [Hosts -> 0..5]]
           /\ issued = Gen(4) /\ sent = Gen(4) /\ next = Len(issued) + 1
           /\ IndInv
\* controls
WeakInv == TypeOK /\ NoPersistJarEmpty /\ CookieIsolation /\ NonPersistingSendsNone
WeakInit == /\ adv \in Hosts /\ sets \in [Hosts -> BOOLEAN]
            /\ jar \in [Clients -> [Hosts -> 0..5]]
            /\ issued = Gen(4) /\ sent = Gen(4) /\ next = Len(issued) + 1
            /\ WeakInv
Trivial == Len(sent) < 2 \/ Len(issued) < 2
=============================================================================
