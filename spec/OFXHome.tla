------------------------------ MODULE OFXHome ------------------------------
(***************************************************************************)
(* Extension E03 - the OFX Home client (ofxtools/ofxhome.py): what a       *)
(* looked-up record means and when it is still trusted.                    *)
(*                                                                         *)
(* A record is what the XML parser hands over: for every child element of  *)
(* <institution> its tag and text ("" for an empty element).  The library  *)
(*   - returns nothing without an id or when OFX Home cannot be reached    *)
(*   - un-escapes every text field ONCE MORE (&lt; &gt; &amp;, one left to *)
(*     right pass) and strips white space; an empty element means None     *)
(*   - reads the two failure flags as integers (None when empty; a MISSING *)
(*     flag counts as failed, an EMPTY one does not - named deviation)     *)
(*   - the last element of a repeated tag wins; an unknown tag makes the   *)
(*     lookup fail (the record type has no such field)                     *)
(*   - repairs a record that is not well-formed only because of the FID    *)
(* and trusts a record when its flag is not set, a validation time is      *)
(* known and that time is at most valid_days (default 90) old.             *)
(* Texts are sequences of code points.                                     *)
(***************************************************************************)
EXTENDS Integers, Sequences, FiniteSets, SequencesExt, TLC

StartsAt(txt, i, pat) == i + Len(pat) - 1 <= Len(txt) /\ SubSeq(txt, i, i + Len(pat) - 1) = pat
E_AMP == <<38, 97, 109, 112, 59>>
E_LT == <<38, 108, 116, 59>>
E_GT == <<38, 103, 116, 59>>
\* xml.sax.saxutils.unescape: replace &lt;, &gt;, then &amp; - equal to one left-to-right pass
SaxUnescape(s) ==
  FoldLeft(LAMBDA st, i :
             IF st.skip > 0 THEN [st EXCEPT !.skip = @ - 1]
             ELSE IF StartsAt(s, i, E_LT) THEN [out |-> Append(st.out, 60), skip |-> 3]
             ELSE IF StartsAt(s, i, E_GT) THEN [out |-> Append(st.out, 62), skip |-> 3]
             ELSE IF StartsAt(s, i, E_AMP) THEN [out |-> Append(st.out, 38), skip |-> 4]
             ELSE [out |-> Append(st.out, s[i]), skip |-> 0],
           [out |-> <<>>, skip |-> 0], [i \in 1..Len(s) |-> i]).out
SaxEscape(s) == FoldLeft(LAMBDA acc, c : IF c = 38 THEN acc \o E_AMP ELSE IF c = 60 THEN acc \o E_LT
                                         ELSE IF c = 62 THEN acc \o E_GT ELSE Append(acc, c), <<>>, s)
\* str.strip(): Unicode white space
PyWS == {9, 10, 11, 12, 13, 28, 29, 30, 31, 32, 133, 160, 5760, 8232, 8233, 8239, 8287, 12288} \cup (8192..8202)
Strip(s) == LET N == {i \in 1..Len(s) : s[i] \notin PyWS} IN
            IF N = {} THEN <<>> ELSE SubSeq(s, CHOOSE i \in N : \A j \in N : i <= j, CHOOSE i \in N : \A j \in N : i >= j)

StrFields == {"name", "fid", "org", "url", "brokerid"}
FlagFields == {"ofxfail", "sslfail"}
Known == StrFields \cup FlagFields
None == [set |-> FALSE, s |-> <<>>]
Str(s) == [set |-> TRUE, s |-> s]
FieldStr(text) == IF text = <<>> THEN None ELSE Str(Strip(SaxUnescape(text)))
\* int(text): optional sign, digits (surrounding blanks tolerated); anything else makes the lookup fail
IsIntText(t) == LET u == Strip(t) IN u # <<>> /\ \A i \in 1..Len(u) : u[i] \in 48..57
FlagOf(text) == IF text = <<>> THEN "none"
                ELSE IF \E i \in 1..Len(Strip(text)) : Strip(text)[i] # 48 THEN "true" ELSE "false"

\* rec.els: sequence of [tag, text] in document order
LastOf(rec, tag) == LET S == {i \in 1..Len(rec.els) : rec.els[i].tag = tag} IN
                    IF S = {} THEN 0 ELSE CHOOSE i \in S : \A j \in S : i >= j
Lookup(id, answer) ==
  IF id = <<>> THEN [k |-> "none"]
  ELSE IF answer.kind = "neterr" THEN [k |-> "none"]
  ELSE LET rec == answer.rec IN
       IF \E i \in 1..Len(rec.els) : rec.els[i].tag \notin Known THEN [k |-> "raise"]
       ELSE IF \E i \in 1..Len(rec.els) : rec.els[i].tag \in FlagFields /\ rec.els[i].text # <<>> /\ ~IsIntText(rec.els[i].text)
            THEN [k |-> "raise"]
       ELSE [k |-> "server", id |-> rec.id,
             str |-> [f \in StrFields |-> IF LastOf(rec, f) = 0 THEN None ELSE FieldStr(rec.els[LastOf(rec, f)].text)],
             \* a flag the record does not carry is "failed" (the default of the record type)
             flag |-> [f \in FlagFields |-> IF LastOf(rec, f) = 0 THEN "true" ELSE FlagOf(rec.els[LastOf(rec, f)].text)]]

(***************************************************************************)
(* Trust: flag "true" | "false" | "none"; age = <<seconds, microseconds>>  *)
(* since the last validation; days = -1 for "use the default"              *)
(***************************************************************************)
DefaultDays == 90
Older(age, days) == age[1] > days * 86400 \/ (age[1] = days * 86400 /\ age[2] > 0)
Invalid(flag, haslast, age, days) ==
  \/ flag = "true"
  \/ ~haslast
  \/ Older(age, IF days = -1 THEN DefaultDays ELSE days)

\* list_institutions: id -> name, both stripped, the last entry of an id wins
ListOf(entries) ==
  LET ids == {Strip(entries[i].id) : i \in 1..Len(entries)} IN
  [x \in ids |-> LET S == {i \in 1..Len(entries) : Strip(entries[i].id) = x} IN Strip(entries[CHOOSE i \in S : \A j \in S : i >= j].name)]
=============================================================================
