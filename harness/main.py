import argparse
import importlib
import os
import sys
import traceback

sys.path.insert(0, os.path.dirname(os.path.abspath(__file__)))
import core  # noqa


def main():
    ap = argparse.ArgumentParser()
    ap.add_argument("prop")
    ap.add_argument("--tier", default=None)
    ap.add_argument("--replay", default=None)
    a = ap.parse_args()
    tier = os.environ.get("VERIF_TIER") or a.tier or "quick"
    if tier not in ("quick", "thorough"):
        tier = "quick"
    seed = int(os.environ.get("VERIF_SEED", "0") or 0)
    prop = a.prop.upper()
    ctx = core.Ctx(prop, tier, seed)
    try:
        core.import_repo()
        mod = importlib.import_module(prop.lower())
        if a.replay:
            rc = mod.replay(ctx, a.replay)
        else:
            mod.run(ctx)
            rc = ctx.finish()
    except core.MachineryError as e:
        print("MACHINERY-FAILURE property=%s: %s" % (prop, e))
        rc = 2
    except Exception:
        traceback.print_exc()
        print("MACHINERY-FAILURE property=%s: harness exception" % prop)
        rc = 2
    sys.exit(rc)


main()
