import argparse
import importlib
import os
import sys
import traceback

sys.path.insert(0, os.path.dirname(os.path.abspath(__file__)))
import core  # noqa


def main():
    ap = argparse.ArgumentParser()
    ap.add_argument("prop")
    ap.add_argument("--tier", default=None)
    ap.add_argument("--replay", default=None)
    a = ap.parse_args()
    tier = os.environ.get("VERIF_TIER") or a.tier or "quick"
    if tier not in ("quick", "thorough"):
        tier = "quick"
    seed = int(os.environ.get("VERIF_SEED", "0") or 0)
    prop = a.prop.upper()
    ctx = core.Ctx(prop, tier, seed)
    try:
        core.import_repo()
        mod = importlib.import_module(prop.lower())
        if a.replay and hasattr(mod, "replay"):
            rc = mod.replay(ctx, a.replay)
        elif a.replay:
            # generic replay: re-run the check with the recorded tier/seed and look for the same case
            import json
            rec = json.load(open(a.replay))
            ctx.tier = rec.get("tier", ctx.tier)
            ctx.seed = rec.get("seed", ctx.seed)
            mod.run(ctx)
            want = rec["case"].get("class_key") or json.dumps(rec["case"], sort_keys=True, default=str)
            hit = [c for c in ctx.failures
                   if (c.get("class_key") or json.dumps(c, sort_keys=True, default=str)) == want]
            print("REPLAY %s: %s" % (a.replay, "reproduced" if hit else "not reproduced"))
            ctx.failures = hit
            rc = ctx.finish()
        else:
            mod.run(ctx)
            rc = ctx.finish()
    except core.MachineryError as e:
        print("MACHINERY-FAILURE property=%s: %s" % (prop, e))
        rc = 2
    except Exception:
        traceback.print_exc()
        print("MACHINERY-FAILURE property=%s: harness exception" % prop)
        rc = 2
    sys.exit(rc)


main()
