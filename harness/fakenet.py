"""In-process fake HTTP(S) servers under urllib's opener: urllib.request.HTTPHandler.http_open and
HTTPSHandler.https_open are replaced, everything above them (the client's HTTPCookieProcessor, header
handling, redirects) is the real code.  The fake servers record every request and answer through a
responder callback; they may set a fresh session cookie on every response."""
import email.message
import io
import urllib.request
import urllib.response
from urllib.parse import urlparse


class FakeNet:
    def __init__(self):
        self.log = []            # every request seen
        self.responder = None    # (host, path, body) -> (status, body bytes)
        self.sets_cookie = {}    # host -> bool
        self.nextsid = 1
        self.issued = []         # (sid, host)
        self.fail = None         # optional callable(host, body) -> exception or None
        self._orig = None

    def install(self):
        net = self

        def open_(handler, req):
            u = urlparse(req.full_url)
            headers = {k.lower(): v for k, v in req.header_items()}
            body = req.data or b""
            rec = {"url": req.full_url, "host": u.hostname, "method": req.get_method(), "headers": headers, "body": body}
            net.log.append(rec)
            if net.fail is not None:
                exc = net.fail(u.hostname, body)
                if exc is not None:
                    raise exc
            status, data = net.responder(u.hostname, u.path, body)
            msg = email.message.Message()
            msg["Content-Type"] = "application/x-ofx"
            if net.sets_cookie.get(u.hostname):
                sid = net.nextsid
                net.nextsid += 1
                net.issued.append((sid, u.hostname))
                msg["Set-Cookie"] = "sid=%d; Path=/" % sid
                rec["set_sid"] = sid
            resp = urllib.response.addinfourl(io.BytesIO(data), msg, req.full_url, status)
            resp.msg = "OK"
            return resp
        self._orig = (urllib.request.HTTPHandler.http_open, urllib.request.HTTPSHandler.https_open)
        urllib.request.HTTPHandler.http_open = open_
        urllib.request.HTTPSHandler.https_open = open_

    def uninstall(self):
        if self._orig:
            urllib.request.HTTPHandler.http_open, urllib.request.HTTPSHandler.https_open = self._orig
            self._orig = None


def sid_of(headers):
    c = headers.get("cookie", "")
    for part in c.split(";"):
        part = part.strip()
        if part.startswith("sid="):
            try:
                return int(part[4:])
            except ValueError:
                return -1
    return 0 if not c else -1
