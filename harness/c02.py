"""C02 - all wire renderings of one body parse to the same, faithful element tree.

M: MC_Syntax: over ALL token streams up to MaxLen, the tree builder accepts exactly the documents
   of the independent grammar and returns their tree (Sound, Complete); LexPrint at character level.
G: every emitted stream, printed in three white-space layouts, is parsed by the real TreeBuilder.
T: seeded random trees over the full tag alphabet with Unicode data, every end-tag / CDATA / white
   space choice per node; TLC lexes and parses the same text and compares trees (Trace_Syntax).
"""
import random

import syn_common as sc
from core import uncps, MachineryError

CFG = "SPECIFICATION Spec\nCONSTANT MaxLen = %d\n%s\nCONSTRAINT Emit\n"
INVS = ["Sound", "Complete", "LexPrint"]


def run(ctx):
    quick = ctx.tier == "quick"
    L = 6 if quick else 7
    ctx.rule = ("grid = every token stream of <= L tokens over {<A>,<B.1>,</A>,</B.1>,text,CDATA} (valid and invalid), "
                "thinned for replay, x 3 white-space layouts; random = trees of <= 40 nodes over [A-Z0-9._]+ tags and Unicode "
                "data x per-node end-tag/CDATA/white-space choices; non-trivial = distinct texts whose tree has >= 2 nodes")
    r = ctx.tlc("MC_Syntax", CFG % (L, "\n".join("INVARIANT " + i for i in INVS)), env={"EMITMOD": 0}, tag="mc")
    if r.violated:
        raise MachineryError("model-level theorem violated in MC_Syntax: %s" % r.violated)
    g = ctx.tlc("MC_Syntax", CFG % (5 if quick else 6, ""), env={"EMITMOD": 1 if quick else 2}, workers=1, tag="emit")
    evs = []
    n = 0
    for c in g.printed_json("CASE"):
        if not c["ok"] or c["open"]:
            continue            # invalid streams belong to C08
        for j, t in enumerate(c["texts"]):
            evs.append(sc.ev_parse("g%dl%d" % (n, j), uncps(t)))
        n += 1
    ctx.extra["grid_streams_replayed"] = n
    rnd = random.Random(ctx.seed * 32452843 + 2)
    for i in range(5000 if quick else 60000):
        t = sc.rand_tree(rnd, [rnd.choice([3, 8, 20, 40])])
        if not t[2] and t[1]:
            t = ["OFX", "", [t]]
        if sc.same_tag_nesting(t):
            continue
        want = sc.abstract(t)
        styles = [None, None, "xml", "sgml"] if not quick else [None, rnd.choice(["xml", "sgml"])]
        for j, st in enumerate(styles):
            text = sc.render(rnd, t, st)
            if rnd.random() < 0.05:
                # an earlier parse that FAILS (truncated body, elements still open; or a wrong end tag) must leave
                # nothing behind that the next parser sees
                cut = text[:rnd.randrange(1, max(2, len(text) - 1))] if rnd.random() < 0.6 else text + "</ZZWRONG>"
                evs.append(sc.ev_parse("r%dv%dx" % (i, j), cut))
            evs.append(sc.ev_parse("r%dv%d" % (i, j), text.strip() if rnd.random() < 0.5 else text, want=want))
            if len(t[2]) > 0:
                ctx.nontrivial.add(text)
    # directed shapes: many empty aggregates (siblings, records of two), deep nesting, long runs of siblings
    shapes = [["R", "", [["E%d" % (i % 3), "", []] for i in range(40)]],
              ["LIST", "", [["REC", "", [["A", "", []], ["K", str(i), []], ["B", "", []]]] for i in range(20)]],
              ["R", "", [["X", "1", []]] + [["EMPTY", "", []]] * 35 + [["Y", "2", []]]]]
    deep = ["L", "x", []]
    for i in range(45):
        deep = ["N%d" % i, "", [deep]]
    shapes.append(deep)
    for k, t in enumerate(shapes):
        want = sc.abstract(t)
        for j, st in enumerate([None, "xml", "sgml"]):
            evs.append(sc.ev_parse("shape%dv%d" % (k, j), sc.render(rnd, t, st), want=want))
    ctx.evaluations = len(evs)
    for e in evs[:1] + evs[-2:]:
        ctx.sample(sc.describe(e))
    if not quick:
        # the repository's own 3592 tests as a trace source (recording plugin, no repository edits)
        import recorded
        rec = recorded.record(ctx, "syntax")
        for e in rec:
            e["id"] = "repo-" + e["id"]
        evs += rec
        ctx.evaluations = len(evs)
    sc.judge(ctx, evs)
