"""C03 - every data element reaches the model with the value its OFX data type assigns.

M: MC_Types (the type rules are consistent: reading, writing, limits) and MC_Gen GenAccepted (every
   generated document is valid for the document machine).
G: TLC -simulate on the live schema produces valid documents of all classes; every leaf gets a text
   from the whole lexical space of its type (all date/time notations and offsets, both decimal
   separators, signs, entity spellings, every enumeration token).
T: the converted model is projected to (class, ordered children, values) and TLC's document machine,
   with OFXTypes.Conv at the leaves, recomputes the instance: same places, same values, nothing else.
"""
import random

import doc_common as dc
import export_schema
import gen_common as gc


def run(ctx):
    quick = ctx.tier == "quick"
    schema, types = export_schema.write(ctx)
    ctx.rule = ("documents = TLC-simulated valid documents over the live schema (all classes as root), leaf texts drawn per "
                "type from its lexical space; plus the minimal document of every class with every enumeration token / notation "
                "in turn; non-trivial = distinct (class of root, number of leaves >= 2) documents; values are compared as a "
                "whole instance (set equality of (path, value))")
    gdocs = gc.simulate_docs(ctx, 2500 if quick else 40000, maxtok=50)
    rnd = random.Random(ctx.seed * 15485867 + 3)
    evs = []
    roots = set()
    for i, g in enumerate(gdocs):
        for rep in range(1 if quick else 2):
            doc = gc.concretise(g, types, rnd, rich=True)
            e = dc.ev_doc("d%dr%d" % (i, rep), doc, schema, route="etree", label="generated", expect="")
            evs.append(e)
            # the same kind of document as wire text (XML / SGML) through the real parser
            gc.MULTILINE[0] = True
            try:
                wdoc = gc.concretise(g, types, rnd, rich=True, wire=True)
            finally:
                gc.MULTILINE[0] = False
            evs.append(dc.ev_doc("w%dr%d" % (i, rep), wdoc, schema, route=rnd.choice(["xml", "sgml"]), label="generated-wire", expect=""))
            # character data with white space at its edges: kept by from_etree and inside a CDATA section
            if rnd.random() < 0.5:
                # (the CDATA route starts from the wire-safe document; a text holding "]]>" cannot go into a CDATA section and
                # is left unpadded there)
                proute = rnd.choice(["cdata", "cdata", "etree"])
                pdoc = dc.pad_strings(wdoc, schema, types, rnd, avoid="]]>") if proute == "cdata" else dc.pad_strings(doc, schema, types, rnd)
                if pdoc is not None:
                    evs.append(dc.ev_doc("p%dr%d" % (i, rep), pdoc, schema, route=proute, label="generated-padded", expect=""))
            roots.add(g[0]["tag"])
            if sum(1 for t in doc if t["e"] == "leaf") >= 2:
                ctx.nontrivial.add(dc.doc_text(doc))
    ctx.extra["root_classes"] = len(roots)
    # every enumeration token and several notations of every typed child, in the minimal document of its class
    mins, _ = dc.mindocs(ctx)
    from c13 import add_child
    from core import uncps
    n = 0
    for cls in sorted(schema):
        for a in schema[cls]["attrs"]:
            if a["k"] != "elem":
                continue
            t = types[int(a["ty"][1:])]
            if t["k"] == "oneof":
                texts = [uncps(v) for v in t["valid"]]
                if quick and len(texts) > 6:
                    texts = rnd.sample(texts, 6)
            elif t["k"] in ("dt", "time", "dec"):
                texts = [gc.text_for(t, rnd) for _ in range(2 if quick else 6)]
            else:
                continue
            for text in texts:
                node = add_child(mins[cls], cls, a, schema, types, mins)
                for k in node[2]:
                    if k[0] == a["tag"]:
                        k[1] = text
                        break
                evs.append(dc.ev_doc("t%d" % n, dc.from_nested(node), schema, route="etree", label="%s.%s" % (cls, a["a"])))
                n += 1
    ctx.evaluations = len(evs)
    for e in evs[:2]:
        ctx.sample({"doc": dc.doc_text(e["doc"])[:400], "ok": e["out"]["ok"]})
    if not quick:
        # the repository's own 3592 tests as a trace source (recording plugin, no repository edits)
        import recorded
        rec = recorded.record(ctx, "doc")
        for e in rec:
            e["id"] = "repo-" + e["id"]
        evs += rec
        ctx.evaluations = len(evs)
    dc.judge(ctx, evs)
