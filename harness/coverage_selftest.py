"""Vacuity: run the model-checking instances with -coverage 1 and list actions that were never taken."""
import os
import re
import sys

sys.path.insert(0, os.path.dirname(os.path.abspath(__file__)))
import core  # noqa

RUNS = [
    ("MC_Syntax", "SPECIFICATION Spec\nCONSTANT MaxLen = 5\nINVARIANT Sound\n", {"EMITMOD": 0}),
    ("MC_Net", "SPECIFICATION Spec\nCONSTANTS\n  Clients = {\"c1\", \"c2\"}\n  NoPersist = {\"c2\"}\n  MaxCalls = 3\nINVARIANT CookieIsolation\n", {}),
    ("MC_GetConfig", "SPECIFICATION Spec\nCONSTANTS\n MaxRuns = 2\n Rule = \"ref\"\nINVARIANT Persist\nVIEW View\n", {}),
    ("MC_Compose", None, {}),
    ("MC_ProfileCache", "SPECIFICATION Spec\nCONSTANTS\n  Clients <- MC_Clients\n  Servers <- MC_Servers\n  Keys <- MC_Keys\n  KeyOf <- MC_KeyOf\n"
     "  SrvOf <- MC_SrvOf\n  MaxDt = 2\n  MaxCrash = 1\n  MaxCalls = 3\n  Variant = \"atomic\"\n  SameKey = TRUE\n  SameServer = TRUE\n"
     "INVARIANT CacheWholeOrAbsent\n", {}),
    ("MC_Secret", "SPECIFICATION Spec\nCONSTANTS MaxRuns = 1\nINVARIANT AllStatesOK\nVIEW View\n", {}),
    ("MC_Scan", "SPECIFICATION Spec\nINVARIANT ReferenceIsOK\n", {}),
    ("Purity", "SPECIFICATION PSpec\nCONSTANTS\n  Instances = {\"d1\", \"d2\"}\n  Values = {\"v1\"}\nINVARIANT HistoryIndependent\n", {}),
]


def main():
    core.import_repo()
    ctx = core.Ctx("SELFTEST", "quick", 0)
    import export_schema
    export_schema.write(ctx)
    bad = 0
    for mod, cfg, env in RUNS:
        if mod == "MC_Compose":
            cfg = "SPECIFICATION Spec\nCONSTANT MaxReq = 1\nINVARIANT ClausesHold\n"
        r = ctx.tlc(mod, cfg, env=env, coverage=True, tag="cov-" + mod, timeout=900)
        zero = []
        for m in re.finditer(r"^<(\w+) line[^>]*>: (\d+):(\d+)", r.out, re.M):
            if int(m.group(3)) == 0 and m.group(1) not in ("Init", "PInit"):
                zero.append(m.group(1))
        print("COVERAGE %s: %d distinct states, actions never taken: %s" % (mod, r.distinct, sorted(set(zero)) or "none"))
        if mod == "MC_ProfileCache":
            zero = [z for z in zero if z not in ("OpenTrunc", "WriteChunk")]      # the other write variant
        if zero:
            bad = 1
    import shutil
    shutil.rmtree(ctx.work, ignore_errors=True)
    sys.exit(bad)


main()
