"""Exports the declarations of ofxtools.models to SchemaData.tla (and a JSON twin for the
harness).  Walks cls.__mro__ / vars(base) ITSELF: it does not call cls.spec, _superdict,
listaggregates ... which are mechanisms under test.  Only declarations are exported."""
import json

import types_common as tc
from core import tla_str, tla_cps


# OFX tags that are Python keywords / builtins and therefore spelled differently as attributes
# (OFX 9.2.2 MAIL <FROM>; 13.8.5.3 MFINFO / 13.8.5.6 STOCKINFO <YIELD>) - from the OFX spec, not from groom()
WIRE_TAGS = {("MAIL", "frm"): "FROM", ("MFINFO", "yld"): "YIELD", ("STOCKINFO", "yld"): "YIELD"}


def walk(cls):
    """ordered (name, descriptor): first-definition order over the reversed MRO, most-derived value"""
    from ofxtools import Types
    order = []
    val = {}
    for base in reversed(cls.__mro__):
        for k, v in vars(base).items():
            if isinstance(v, (Types.Element, Types.Unsupported)):
                if k not in val:
                    order.append(k)
                val[k] = v
            elif k in val:
                # a non-descriptor shadows an inherited descriptor
                order.remove(k)
                del val[k]
    return [(k, val[k]) for k in order]


def mutexes_declared(cls, name):
    out = []
    for base in cls.__mro__:
        for g in vars(base).get(name, []) or []:
            g = tuple(g)
            if g not in out:
                out.append(g)
    return out


def export():
    import ofxtools.models as M
    from ofxtools import Types
    from ofxtools.models.base import Aggregate
    classes = {}
    for name in dir(M):
        c = getattr(M, name)
        if isinstance(c, type) and issubclass(c, Aggregate) and c is not Aggregate and name == c.__name__ \
                and name != "ElementList" and name == name.upper():
            classes[name] = c
    # classes referred to by a declaration but not exported by the package are still part of the schema
    # (they are then "not found by tag")
    todo = list(classes.values())
    while todo:
        c = todo.pop()
        for _, d in walk(c):
            t = getattr(d, "__type__", None)
            if isinstance(d, Types.SubAggregate) and isinstance(t, type) and issubclass(t, Aggregate) \
                    and t.__name__ not in classes and t.__name__ == t.__name__.upper():
                classes[t.__name__] = t
                todo.append(t)
    types = {}     # key json -> tid
    typelist = []
    schema = {}
    for name, c in sorted(classes.items()):
        attrs = []
        for a, d in walk(c):
            ent = {"a": a, "tag": WIRE_TAGS.get((name, a), a.upper()), "req": bool(getattr(d, "required", False)), "ty": "", "k": "", "cls": ""}
            if isinstance(d, Types.Unsupported):
                ent["k"] = "unsup"
            elif isinstance(d, Types.ListAggregate):
                ent["k"] = "lagg"
                ent["cls"] = d.__type__.__name__
            elif isinstance(d, Types.SubAggregate):
                ent["k"] = "sub"
                ent["cls"] = d.__type__.__name__
            else:
                ent["k"] = "lelem" if isinstance(d, Types.ListElement) else "elem"
                t = tc.ty_of_element(d)
                if t is None:
                    ent["k"] = "unsup"
                else:
                    if isinstance(d, Types.ListElement):
                        ent["req"] = False
                    key = json.dumps(t, sort_keys=True)
                    if key not in types:
                        types[key] = "T%d" % len(types)
                        typelist.append(t)
                    ent["ty"] = types[key]
            attrs.append(ent)
        import ofxtools.models.base as B
        schema[name] = {
            "attrs": attrs,
            "om": [list(g) for g in mutexes_declared(c, "optionalMutexes")],
            "omf": [list(g) for g in (getattr(c, "optionalMutexes", []) or [])],
            "rm": [list(g) for g in mutexes_declared(c, "requiredMutexes")],
            "rmf": [list(g) for g in (getattr(c, "requiredMutexes", []) or [])],
            "custom_validate": "validate_args" in {k for b in c.__mro__ if b is not Aggregate and b is not B.ElementList for k in vars(b)},
            "custom_groom": any(("groom" in vars(b) or "ungroom" in vars(b)) for b in c.__mro__ if b is not Aggregate),
            "elementlist": issubclass(c, B.ElementList),
            "bytag": getattr(M, name, None) is c,
            # class attributes that LOOK like declarations but are not usable ones: an Element wrapped in a tuple / list
            # (a stray comma) or an Element class that was never instantiated
            "odd": sorted(n for b in c.__mro__ if b is not Aggregate and b is not B.ElementList and b is not list and b is not object
                          for n, v in vars(b).items()
                          if (isinstance(v, (tuple, list)) and any(isinstance(x, (Types.Element, Types.Unsupported)) for x in v))
                          or (isinstance(v, type) and issubclass(v, Types.Element))),
            "props": sorted(n for b in c.__mro__ if b is not Aggregate and b is not B.ElementList
                            for n, v in vars(b).items() if isinstance(v, property)),
            "bases": [b.__name__ for b in c.__mro__[1:] if b is not Aggregate and b is not list and b is not object],
        }
    return schema, typelist


def sample_text(t):
    """a plain valid text of the type (validated by the specification, not trusted)"""
    k = t["k"]
    if k == "bool":
        return "Y"
    if k in ("str", "nag"):
        return "a" if t["len"] in (-1, 1) or t["len"] < 3 else "a b"[:t["len"]]
    if k == "oneof":
        from core import uncps
        return uncps(t["valid"][0])
    if k == "int":
        return "7"
    if k == "dec":
        return "1.5" if t["scale"] == -1 else "1." + "5" * max(t["scale"], 1) if t["scale"] > 0 else "2"
    if k == "dt":
        return "20200102030405.123[-5:EST]"
    if k == "time":
        return "030405.123[-5:EST]"
    return "x"


def to_tla(schema, typelist):
    def sset(groups):
        return "{" + ", ".join("{" + ", ".join(tla_str(x) for x in g) + "}" for g in groups) + "}"
    out = ["---- MODULE SchemaData ----", "EXTENDS Integers", "\\* GENERATED from /repo's live classes at every run (harness/export_schema.py)"]
    tl = []
    for i, t in enumerate(typelist):
        tl.append('T%d |-> [k |-> %s, len |-> %d, scale |-> %d, valid |-> {%s}, req |-> %s]' % (
            i, tla_str(t["k"]), t["len"], t["scale"],
            ", ".join("<<" + ", ".join(map(str, v)) + ">>" for v in t["valid"]),
            "TRUE" if t["req"] else "FALSE"))
    out.append("TypeTable == [" + ",\n  ".join(tl) + "]")
    out.append("SampleText == [" + ", ".join("T%d |-> %s" % (i, tla_cps(sample_text(t))) for i, t in enumerate(typelist)) + "]")
    cl = []
    for name, s in schema.items():
        attrs = ", ".join('[a |-> %s, k |-> %s, ty |-> %s, req |-> %s, tag |-> %s, cls |-> %s]' % (
            tla_str(a["a"]), tla_str(a["k"]), tla_str(a["ty"]), "TRUE" if a["req"] else "FALSE",
            tla_str(a["tag"]), tla_str(a["cls"])) for a in s["attrs"])
        cl.append('%s |-> [attrs |-> <<%s>>, om |-> %s, omf |-> %s, rm |-> %s, rmf |-> %s, custom |-> %s, groom |-> %s, elist |-> %s, bytag |-> %s, props |-> {%s}, odd |-> {%s}]' % (
            name, attrs, sset(s["om"]), sset(s["omf"]), sset(s["rm"]), sset(s["rmf"]),
            "TRUE" if s["custom_validate"] else "FALSE", "TRUE" if s["custom_groom"] else "FALSE",
            "TRUE" if s["elementlist"] else "FALSE", "TRUE" if s["bytag"] else "FALSE",
            ", ".join(tla_str(x) for x in sorted(set(s["props"]))), ", ".join(tla_str(x) for x in sorted(set(s["odd"])))))
    out.append("Schema == [" + ",\n  ".join(cl) + "]")
    tags = sorted(set(schema) | {a["tag"] for s in schema.values() for a in s["attrs"]})
    out.append("TagTable == [t \\in {%s} |-> CASE %s]" % (
        ", ".join(tla_cps(t) for t in tags),
        " [] ".join("t = %s -> %s" % (tla_cps(t), tla_str(t)) for t in tags)))
    names = sorted({a["a"] for s in schema.values() for a in s["attrs"]})
    for nm, suf in (("PctNames", "pct"), ("AmtNames", "amt"), ("RqNames", "rqv1"), ("RsNames", "rsv1")):
        out.append("%s == {%s}" % (nm, ", ".join(tla_str(x) for x in names if x.endswith(suf))))
    out.append("====")
    return "\n".join(out) + "\n"


def write(ctx):
    schema, typelist = export()
    ctx.write("SchemaData.tla", to_tla(schema, typelist))
    import doc_common
    doc_common.TYPES = typelist
    with open(ctx.work + "/schema.json", "w") as f:
        json.dump({"schema": schema, "types": typelist}, f)
    return schema, typelist
