"""E01 (extension, not one of the listed properties) - ofxget's profile scan reports exactly the
combinations that work and proposes the best of them, whatever the completion order of its 30
concurrent requests.

M: MC_Scan: over all servers of a reduced universe the reference report satisfies FamilyOK / BestOK and
   the proposal is a combination that worked whenever the documented assumption (uniform formats per
   family) holds; TLC exhibits a server for which it is not.
T: seeded servers (subsets of the 30 combinations, with random response delays) are scanned by the real
   _scan_profile / _best_scan_format over a fake transport; TLC judges the report.
"""
import random
import re
import shutil
import threading
import time
import urllib.error
from pathlib import Path

import doc_common as dc
import export_schema
import ofx_server
from core import MachineryError

V1 = [102, 103, 151, 160]
V2 = [200, 201, 202, 203, 210, 211, 220]


def run(ctx):
    import ofxtools.config as config
    import ofxtools.scripts.ofxget as og
    from ofxtools.Client import OFXClient
    import logging
    logging.disable(logging.CRITICAL)
    quick = ctx.tier == "quick"
    schema, types = export_schema.write(ctx)
    mins, _ = dc.mindocs(ctx)
    rnd = random.Random(ctx.seed * 7 + 1)
    ctx.rule = "servers = seeded subsets of the 30 (version, pretty, unclosed) combinations; non-trivial = distinct servers"
    r = ctx.tlc("MC_Scan", "SPECIFICATION Spec\nINVARIANT ReferenceIsOK\nINVARIANT ProposalWorkedUnderAssumption\n", tag="mc")
    if r.violated:
        raise MachineryError("MC_Scan: %s" % r.violated)
    combos = [(v, p, u) for v in V1 for p in (False, True) for u in (False, True)] + [(v, p, False) for v in V2 for p in (False, True)]
    profile = ofx_server.profile(mins, "https://scan.invalid/ofx").encode()
    evs = []
    orig = OFXClient.post_request
    try:
        for i in range(25 if quick else 400):
            k = rnd.random()
            if k < 0.2:
                works = set(c for c in combos if not c[1] and not c[2] and rnd.random() < 0.7)
            elif k < 0.4:
                fam = rnd.choice([V1, V2, V1 + V2])
                fmts = set((rnd.random() < 0.5, rnd.random() < 0.5) for _ in range(2))
                works = set(c for c in combos if c[0] in fam and (c[1], c[2]) in fmts)
            else:
                works = set(c for c in combos if rnd.random() < rnd.choice([0.1, 0.5, 0.9]))
            data = Path(ctx.work) / "scan" / str(i)
            data.mkdir(parents=True, exist_ok=True)
            config.DATADIR = data
            lock = threading.Lock()

            def post(self, url, body, timeout, works=works):
                m = re.search(rb"VERSION[:=]\"?(\d+)", body)
                v = int(m.group(1))
                pretty = b"<OFX>\n" in body
                unclosed = b"</USERID>" not in body
                time.sleep(rnd.random() * 0.003)
                if (v, pretty, unclosed) not in works:
                    raise urllib.error.URLError("refused")
                return profile
            OFXClient.post_request = post
            try:
                res = og._scan_profile("https://scan.invalid/ofx", "ORG", "FID", None, True, max_workers=8, timeout=2.0)
                best = og._best_scan_format(res)
                exc = ""
            except Exception as e:
                res, best, exc = None, None, type(e).__name__ + ": " + str(e)[:100]
            shutil.rmtree(data, ignore_errors=True)
            if res is None:
                ctx.fail({"clause": "scan-crashed", "what": "scan raised %s for server %s" % (exc, sorted(works))})
                continue
            v1, v2, _si = res
            ev = {"id": "s%d" % i, "op": "scan", "works": [{"v": c[0], "p": c[1], "u": c[2]} for c in sorted(works)],
                  "v1": {"versions": list(v1["versions"]), "formats": [{"p": bool(f["pretty"]), "u": bool(f["unclosedelements"])} for f in v1["formats"]]},
                  "v2": {"versions": list(v2["versions"]), "formats": [{"p": bool(f["pretty"]), "u": False} for f in v2["formats"]]},
                  "best": {"none": not best, "version": best.get("version", 0), "p": bool(best.get("pretty", False)),
                           "u": bool(best.get("unclosedelements", False))}}
            evs.append(ev)
            ctx.nontrivial.add(tuple(sorted(works)))
    finally:
        OFXClient.post_request = orig
    ctx.evaluations = len(evs)
    for e in evs[:2]:
        ctx.sample({"works": len(e["works"]), "v1": e["v1"], "v2": e["v2"], "best": e["best"]})
    mism = ctx.validate_trace("Trace_Scan", evs)
    byid = {e["id"]: e for e in evs}
    for eid, clauses in mism.items():
        e = byid[eid]
        for cl in clauses:
            ctx.fail({"clause": cl, "what": "%s works=%s v1=%s v2=%s best=%s" % (cl, [(c["v"], c["p"], c["u"]) for c in e["works"]], e["v1"], e["v2"], e["best"])})
