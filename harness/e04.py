"""E04 (extension, not one of the listed properties) - the life of one OFXTree object: what it holds after any sequence
of parse() / convert() calls.

M: MC_TreeLife: all histories of up to MaxOps calls over 4 documents x 5 kinds of source: the root is always a valid
   document's, never without a header; a successful parse replaces both.  OBSERVATION Agree (header and root always of
   the same document) is violated: a malformed body is noticed after the new header was stored.
G: every history TLC enumerates / simulates is replayed on a real OFXTree.
T: after every call the harness records the outcome, which document's header and root the tree holds (by comparing
   with the known documents), whether the caller's file object is still open and whether a descriptor leaked;
   Trace_TreeLife advances the same step functions.
"""
import io
import os
import random
import xml.etree.ElementTree as ET
from pathlib import Path

from core import MachineryError

DOCS = {
    "a": b"OFXHEADER:100\r\nDATA:OFXSGML\r\nVERSION:102\r\nSECURITY:NONE\r\nENCODING:USASCII\r\nCHARSET:1252\r\nCOMPRESSION:NONE\r\n"
         b"OLDFILEUID:NONE\r\nNEWFILEUID:AAA\r\n\r\n<OFX><SIGNONMSGSRSV1><SONRS><STATUS><CODE>0<SEVERITY>INFO</STATUS>"
         b"<DTSERVER>20200101<LANGUAGE>ENG</SONRS></SIGNONMSGSRSV1></OFX>",
    "b": b'<?xml version="1.0" encoding="UTF-8" standalone="no"?>\r\n<?OFX OFXHEADER="200" VERSION="203" SECURITY="NONE" OLDFILEUID="NONE" '
         b'NEWFILEUID="BBB"?>\r\n<OFX><SIGNONMSGSRSV1><SONRS><STATUS><CODE>2000</CODE><SEVERITY>ERROR</SEVERITY></STATUS>'
         b"<DTSERVER>20210202</DTSERVER><LANGUAGE>FRA</LANGUAGE></SONRS></SIGNONMSGSRSV1></OFX>",
    "badhdr": b"OFXHEADER:100\r\nDATA:OFXSGML\r\nVERSION:102\r\nSECURITY:BOGUS\r\nENCODING:USASCII\r\nCHARSET:1252\r\nCOMPRESSION:NONE\r\n"
              b"OLDFILEUID:NONE\r\nNEWFILEUID:HHH\r\n\r\n<OFX></OFX>",
    "badbody": b"OFXHEADER:100\r\nDATA:OFXSGML\r\nVERSION:160\r\nSECURITY:NONE\r\nENCODING:USASCII\r\nCHARSET:1252\r\nCOMPRESSION:NONE\r\n"
               b"OLDFILEUID:NONE\r\nNEWFILEUID:YYY\r\n\r\n<OFX><SIGNONMSGSRSV1><SONRS></OFX>",
}
UID = {"AAA": "a", "BBB": "b", "HHH": "badhdr", "YYY": "badbody"}


def nfds():
    return len(os.listdir("/proc/self/fd"))


def run(ctx):
    from ofxtools.Parser import OFXTree
    quick = ctx.tier == "quick"
    rnd = random.Random(ctx.seed * 31337 + 4)
    ctx.rule = ("histories = all sequences of up to 3 calls (exhaustive, from TLC) + simulated sequences of 6; calls = parse of 4 "
                "documents from 5 kinds of source, convert; non-trivial = distinct (state before, call, outcome)")
    cfg = "SPECIFICATION Spec\nCONSTANT MaxOps = %d\nINVARIANT Sound\nPROPERTY ParseReplaces\nVIEW View\n"
    r = ctx.tlc("MC_TreeLife", cfg % 4, tag="mc")
    if r.violated:
        raise MachineryError("MC_TreeLife: %s" % r.violated)
    r = ctx.tlc("MC_TreeLife", "SPECIFICATION Spec\nCONSTANT MaxOps = 3\nINVARIANT Agree\nVIEW View\n", tag="mc-observation", expect_ok=False)
    if "Agree" not in r.violated:
        raise MachineryError("MC_TreeLife: the observation Agree was expected to be violated")
    g = ctx.tlc("MC_TreeLife", "SPECIFICATION Spec\nCONSTANT MaxOps = %d\nCONSTRAINT Emit\n" % (2 if quick else 3), workers=1, tag="emit")
    hists = [h["hist"] for h in g.printed_json("HIST")]
    sim = ctx.tlc("MC_TreeLife", "SPECIFICATION Spec\nCONSTANT MaxOps = 6\nCONSTRAINT Emit\n", workers=1,
                  simulate="num=%d" % (150 if quick else 3000), depth=8, tag="sim")
    hists += [h["hist"] for h in sim.printed_json("HIST")]
    ctx.extra["spec_behaviours_replayed"] = len(hists)
    d = Path(ctx.work) / "treelife"
    d.mkdir(parents=True, exist_ok=True)
    for k, b in DOCS.items():
        (d / (k + ".ofx")).write_bytes(b)
    roots = {}
    for k in ("a", "b"):
        t = OFXTree()
        t.parse(io.BytesIO(DOCS[k]))
        roots[ET.tostring(t.getroot())] = k
    models = {"a": "ENG", "b": "FRA"}
    evs = []
    for hi, hist in enumerate(hists):
        tree = OFXTree()
        evs.append({"id": "h%d" % hi, "op": "env"})
        for ci, c in enumerate(hist):
            eid = "h%dc%d" % (hi, ci)
            if c["op"] == "parse":
                path = str(d / (c["doc"] + ".ofx"))
                kind = c["kind"]
                f = None
                before = nfds()
                if kind == "path":
                    src = path
                elif kind == "pathobj":
                    src = Path(path)
                elif kind == "binfile":
                    src = f = open(path, "rb")
                elif kind == "bytesio":
                    src = f = io.BytesIO(DOCS[c["doc"]])
                else:
                    src = f = open(path, "r", encoding="latin_1")
                try:
                    tree.parse(src)
                    out = "ok"
                except Exception as e:
                    out = type(e).__name__
                stillopen = (f is not None and not f.closed)
                if f is not None:
                    f.close()
                leak = nfds() - before
                ev = {"id": eid, "op": "parse", "kind": kind, "doc": c["doc"], "out": out, "stillopen": stillopen, "fdleak": leak}
            else:
                try:
                    m = tree.convert()
                    out = "ok"
                    model = {v: k for k, v in models.items()}.get(m.signonmsgsrsv1.sonrs.language, "?")
                except Exception as e:
                    out, model = type(e).__name__, ""
                ev = {"id": eid, "op": "convert", "out": out, "model": model}
            h = getattr(tree, "header", None)
            ev["hdr"] = UID.get(getattr(h, "newfileuid", None), "?") if h is not None else ""
            root = tree.getroot()
            ev["root"] = roots.get(ET.tostring(root), "?") if root is not None else ""
            evs.append(ev)
            ctx.nontrivial.add((c["op"], c.get("kind"), c.get("doc"), ev["out"], ev["hdr"], ev["root"]))
    ctx.evaluations = len(evs)
    for e in evs[1:3]:
        ctx.sample(e)
    mism = ctx.validate_histories("Trace_TreeLife", evs)
    byid = {e["id"]: e for e in evs}
    for eid, clauses in mism.items():
        for cl in clauses:
            ctx.fail({"clause": cl.split(" ")[0], "detail": cl, "what": "%s at %s" % (cl, byid[eid])})
