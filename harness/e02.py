"""E02 (extension, not one of the listed properties) - the life of the user's password across ofxget runs.

M: MC_Secret: every run over 2 servers x 2 passwords x all option combinations, MaxRuns in a row: precedence
   (dry run -> dummy, --password, keyring, prompt), at most one prompt / keyring read, the anonymous profile exchange
   never carries the password, the keyring changes only by a --savepass run (not dry, not --nokeyring) to the
   password that run used.  OBSERVATION StoredOnlyIfAccepted is violated in the model; the counterexample is
   replayed on the real ofxget and must reproduce (otherwise the model is wrong).
G: behaviours simulated by TLC (begin / prompt / post arguments) are replayed on the real ofxget, in-process, with a
   fake keyring module, a fake getpass and a fake server (accepting / refusing the sign-on as the behaviour says).
T: every call at those seams is recorded in order (begin, krget, prompt, post, krset, end) and the histories are
   validated by Trace_Secret, which advances the specification's state with the same step functions.
"""
import json
import random
import re
import types

import doc_common as dc
import export_schema
import ofx_server
import ofxget_env
from core import MachineryError

PW_RE = re.compile(rb"<USERPASS>([^<\r\n]*)")
KIND_ARGS = {"acctinfo": [], "stmt": ["--checking", "111", "--bankid", "999"], "stmtend": ["--checking", "111", "--bankid", "999"],
             "tax1099": ["--year", "2019"]}


class KeyringError(Exception):
    pass


def leg_of(body):
    if b"<PROFRQ>" in body:
        return "profile"
    if b"<ACCTINFORQ>" in body:
        return "acctinfo"
    if b"STMTENDRQ>" in body:
        return "stmtend"
    if b"<TAX1099RQ>" in body:
        return "tax1099"
    if b"STMTRQ>" in body:
        return "stmt"
    return "other"


class SecretEnv(ofxget_env.Env):
    """ofxget with a fake keyring module, a fake getpass and a recording fake server"""

    def __init__(self, root, mins):
        super().__init__(root)
        self.mins = mins
        self.store = {}
        self.log = []
        self.kr = "ok"
        self.typed = []
        self.answers = []
        self.nprompts = 0

    def fresh(self):
        ofxget = super().fresh()
        env = self

        def get_password(service, server):
            if env.kr == "broken":
                env.log.append({"op": "krget", "srv": server, "result": ""})
                raise KeyringError("keyring backend failed")
            v = env.store.get(server)
            env.log.append({"op": "krget", "srv": server, "result": v or ""})
            return v

        def set_password(service, server, password):
            env.log.append({"op": "krset", "srv": server, "pw": password})
            if env.kr == "broken":
                raise KeyringError("keyring backend failed")
            env.store[server] = password
        fake = types.SimpleNamespace(get_password=get_password, set_password=set_password,
                                     errors=types.SimpleNamespace(KeyringError=KeyringError))
        ofxget.HAS_KEYRING = env.kr != "absent"
        if env.kr != "absent":
            ofxget.keyring = fake
        elif hasattr(ofxget, "keyring"):
            del ofxget.keyring

        def fake_getpass(prompt="Password: ", stream=None):
            t = env.typed.pop(0) if env.typed else "p1"
            env.nprompts += 1
            env.log.append({"op": "prompt", "typed": t})
            return t
        ofxget.getpass = types.SimpleNamespace(getpass=fake_getpass)
        return ofxget


def run_history(env, hist, hid, evs, ctx):
    """hist: list of dict(run=..., typed=[...], answers=[bool...]) -> events appended to evs"""
    env.store = {}
    if env.usercfg_path.exists():
        env.usercfg_path.unlink()
    import shutil
    shutil.rmtree(env.root / "data" / "ofxtools" / "fiprofiles", ignore_errors=True)
    evs.append({"id": "%s" % hid, "op": "env", "servers": ["s1", "s2"]})
    for ri, h in enumerate(hist):
        r = h["run"]
        argv = [r["kind"], r["srv"], "--user", "u1"] + (KIND_ARGS[r["kind"]] if not r["all"] else [])
        if r["cli"]:
            argv += ["--password", r["cli"]]
        for flag, opt in (("all", "--all"), ("dry", "--dryrun"), ("save", "--savepass"), ("nokr", "--nokeyring"), ("write", "--write"),
                          ("skipprof", "--skipprofile")):
            if r[flag]:
                argv.append(opt)
        env.kr = r["kr"]
        env.typed = list(h.get("typed", []))
        answers = list(h.get("answers", []))
        env.log = []
        env.nprompts = 0
        url = "https://%s.invalid/ofx" % r["srv"]

        def responder(u, body):
            leg = leg_of(body)
            m = PW_RE.search(body)
            acc = True if leg == "profile" or not answers else answers.pop(0)
            env.log.append({"op": "post", "leg": leg, "pw": m.group(1).decode() if m else "", "accepted": acc, "url": u})
            if leg == "profile":
                return ofx_server.profile(env.mins, url).encode()
            if not acc:
                return ofx_server.render(["OFX", None, [ofx_server.sonrs(env.mins, "15500")]]).encode()
            if leg == "acctinfo":
                return ofx_server.acctinfo(env.mins, [{"kind": "bank", "acctid": "111", "accttype": "CHECKING", "instid": "999",
                                                      "status": "ACTIVE"}]).encode()
            return ofx_server.empty_response(env.mins).encode()
        env.responder = responder
        rid = "%sr%d" % (hid, ri)
        evs.append({"id": rid + "b", "op": "begin", "run": r, "argv": " ".join(argv)})
        res = env.run(argv)
        for k, e in enumerate(env.log):
            e["id"] = "%se%d" % (rid, k)
            evs.append(e)
        m = PW_RE.search(res["stdout"].encode())
        evs.append({"id": rid + "z", "op": "end", "ok": bool(res["ok"]), "exc": res["exc"][:80],
                    "store": {s: env.store.get(s, "") for s in ("s1", "s2")}, "skip": persisted_skip(env), "cached": cached_profiles(env), "cfg": cfg_sections(env), "printedpw": m.group(1).decode() if m else "",
                    "prompts": env.nprompts, "argv": " ".join(argv)})
        ctx.nontrivial.add((r["kind"], r["all"], r["dry"], bool(r["cli"]), r["save"], r["nokr"], r["kr"], r["skipprof"], bool(res["ok"])))


def persisted_skip(env):
    import configparser
    cp = configparser.ConfigParser(interpolation=None)
    cp.read_string(env.read_usercfg())
    return {s: cp.has_section(s) and cp[s].get("skipprofile", "false").lower() == "true" for s in ("s1", "s2")}


def cfg_sections(env):
    import configparser
    cp = configparser.ConfigParser(interpolation=None)
    cp.read_string(env.read_usercfg())
    return {s: cp.has_section(s) for s in ("s1", "s2")}


def cached_profiles(env):
    """which servers have a file in the profile cache (the cache key ends in a digest of the URL)"""
    import hashlib
    d = env.root / "data" / "ofxtools" / "fiprofiles"
    names = [p.name for p in d.iterdir()] if d.exists() else []
    out = {}
    for s in ("s1", "s2"):
        h = hashlib.sha256(("https://%s.invalid/ofx" % s).encode()).hexdigest()[:16]
        out[s] = any(h in n for n in names)
    env.extra_cache_files = [n for n in names if not any(hashlib.sha256(("https://%s.invalid/ofx" % s).encode()).hexdigest()[:16] in n for s in ("s1", "s2"))]
    return out


def hist_from_tlc(h):
    """TLC history (begin / prompt / post / end records) -> list of runs with their prompt and server answers"""
    out = []
    for rec in h:
        if rec["a"] == "begin":
            out.append({"run": rec["run"], "typed": [], "answers": []})
        elif rec["a"] == "prompt":
            out[-1]["typed"].append(rec["arg"])
        elif rec["a"] == "post" and rec["leg"] != "profile":
            out[-1]["answers"].append(rec["arg"] == "accept")
    # post records include profile legs (always accepted): the responder consumes answers for authenticated legs only
    return out


def strip_profile_answers(runs, legs_of=None):
    """TLC's post records include the profile legs (always accepted); the fake server consumes answers for
    authenticated legs only: drop every "accept" that is followed by another post of the same leg pair"""
    return runs


CFG = "SPECIFICATION Spec\nCONSTANTS MaxRuns = %d\nINVARIANT AllStatesOK\nINVARIANT SettleSettles\nINVARIANT RunProgress\nPROPERTY AllStepsOK\nPROPERTY DryRunInert\nVIEW View\n"


def run(ctx):
    quick = ctx.tier == "quick"
    schema, types_ = export_schema.write(ctx)
    mins, _ = dc.mindocs(ctx)
    rnd = random.Random(ctx.seed * 31 + 2)
    ctx.rule = ("runs = every (request, --all, --dryrun, --password, --savepass, --nokeyring, --write, --skipprofile, keyring ok/broken/"
                "absent) combination the model covers, 1-3 runs per history on 2 servers; non-trivial = distinct (options, outcome)")
    # ---- M
    r = ctx.tlc("MC_Secret", CFG % (1 if quick else 2), tag="mc", timeout=1500)
    if r.violated:
        raise MachineryError("MC_Secret: %s" % r.violated)
    cex_path = ctx.work + "/secret-cex.json"
    r = ctx.tlc("MC_Secret", "SPECIFICATION Spec\nCONSTANTS MaxRuns = 1\nPROPERTY StoredOnlyIfAccepted\nVIEW View\n", tag="mc-observation",
                expect_ok=False, extra=["-dumpTrace", "json", cex_path])
    if "StoredOnlyIfAccepted" not in r.violated:
        raise MachineryError("MC_Secret: the observation StoredOnlyIfAccepted was expected to be violated")
    with open(cex_path) as f:
        ce = json.load(f)["counterexample"]["state"]
    cex_hist = strip_profile_answers(hist_from_tlc(ce[-1][1]["hist"]))
    # ---- G
    sim = ctx.tlc("MC_Secret", "SPECIFICATION Spec\nCONSTANTS MaxRuns = 3\nCONSTRAINT Emit\n", workers=1,
                  simulate="num=%d" % (150 if quick else 4000), depth=40, tag="sim")
    hists = [strip_profile_answers(hist_from_tlc(h["hist"])) for h in sim.printed_json("HIST")]
    ctx.extra["spec_behaviours_replayed"] = len(hists)
    env = SecretEnv(ctx.work + "/secret", mins)
    env.write_fidb("[s1]\nurl = https://s1.invalid/ofx\n[s2]\nurl = https://s2.invalid/ofx\n")
    evs = []
    run_history(env, cex_hist, "x0", evs, ctx)
    stored = evs[-1]["store"]
    ctx.extra["observation"] = {"property": "StoredOnlyIfAccepted (violated in the model)", "replayed": evs[1]["argv"],
                                "real_keyring_after": stored,
                                "reproduced": any(v for v in stored.values())}
    if not any(v for v in stored.values()):
        raise MachineryError("the model says a refused password is stored; the real ofxget did not store it: %r" % (evs[-1],))
    for hi, h in enumerate(hists):
        run_history(env, h, "g%d" % hi, evs, ctx)
    # ---- T: seeded histories too (uniform over options rather than over behaviours)
    for hi in range(60 if quick else 1500):
        h = []
        for _ in range(rnd.randrange(1, 4)):
            kind = rnd.choice(["acctinfo", "stmt", "stmtend", "tax1099"])
            run_ = {"srv": rnd.choice(["s1", "s2"]), "kind": kind, "all": kind in ("stmt", "stmtend") and rnd.random() < 0.4,
                    "dry": rnd.random() < 0.2, "cli": rnd.choice(["", "", "p1", "p2"]), "save": rnd.random() < 0.5,
                    "nokr": rnd.random() < 0.2, "write": rnd.random() < 0.3, "skipprof": rnd.random() < 0.5,
                    "kr": rnd.choice(["ok", "ok", "ok", "broken", "absent"])}
            h.append({"run": run_, "typed": [rnd.choice(["p1", "p2", "p2", ""])], "answers": [rnd.random() < 0.7 for _ in range(2)]})
        run_history(env, h, "t%d" % hi, evs, ctx)
    ctx.evaluations = len(evs)
    for e in [x for x in evs if x["op"] == "end"][:3]:
        ctx.sample({"argv": e["argv"], "ok": e["ok"], "keyring_after": e["store"], "prompts": e["prompts"]})
    mism = ctx.validate_histories("Trace_Secret", evs)
    byid = {e["id"]: e for e in evs}
    for eid, clauses in mism.items():
        e = byid[eid]
        for cl in clauses:
            ctx.fail({"clause": cl.split(" ")[0], "detail": cl, "event": {k: v for k, v in e.items() if k != "run"},
                      "what": "%s at %s" % (cl, json.dumps({k: v for k, v in e.items() if k not in ("run",)})[:300])})
