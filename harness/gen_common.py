"""TLC-simulated valid documents (MC_Gen) and their concretisation: the specification chooses the
shape (classes, children, list members), the concretiser chooses a text for every leaf from the
lexical space of its type; the value of each text is assigned by the specification (Conv)."""
import concurrent.futures
import json
import random

import doc_common as dc
from core import cps, uncps, NCPU

GENCFG = """SPECIFICATION Spec
CONSTANTS
  MaxTok = %d
  MaxDepth = %d
  MaxList = %d
INVARIANT GenAccepted
CONSTRAINT Emit
"""


def simulate_docs(ctx, num, maxtok=40, maxdepth=6, maxlist=3, jvms=None, depth=300):
    """-> list of generator documents [{e, tag, ty}]"""
    jvms = jvms or min(NCPU, max(1, num // 300))
    per = (num + jvms - 1) // jvms
    cfg = GENCFG % (maxtok, maxdepth, maxlist)

    def one(i):
        return ctx.tlc("MC_Gen", cfg, workers=1, simulate="num=%d" % per, depth=depth, seed=ctx.seed * 1000 + i + 1,
                       tag="gen%d" % i, timeout=600)
    with concurrent.futures.ThreadPoolExecutor(max_workers=jvms) as ex:
        rs = list(ex.map(one, range(jvms)))
    docs = []
    for r in rs:
        if r.violated:
            from core import MachineryError
            raise MachineryError("generator produced a document its own machine rejects: %s" % r.violated)
        docs += r.printed_json("DOC")
    return docs


STR_ATOMS = ["a", "b", "Z", "0", "9", " ", ".", ",", "-", "_", "/", ":", "&", "<", ">", '"', "'", "é", "€", "漢", "😀", "%", "]", "[", "=", "+",
             "{", "}",
             # text that Unicode normalisation would change (decomposed / compatibility characters) is data like any other
             "e\u0301", "\u2126", "\u212b", "\u1100\u1161"]
# interior line breaks / tabs / runs of blanks: legal character data when READING a document (C03); not part of
# the "printable" strings the writing properties (C01, C11) quantify over
MULTILINE_ATOMS = ["\r\n", "\n", "\r", "\t", "  "]
MULTILINE = [False]
# fragments that make the VALUE itself look like it holds an entity (the wire must escape the '&')
ENTITY_LIKE = ["&lt;", "&gt;", "&amp;", "&quot;", "&apos;", "&nbsp;", "&#65;", "&x;", "&amp;lt;"]
ENT = {"&": "&amp;", "<": "&lt;", ">": "&gt;", '"': "&quot;", "'": "&apos;"}


def str_value(rnd, maxlen):
    n = maxlen if maxlen != -1 else rnd.choice([1, 3, 8, 20, 60])
    k = rnd.random()
    if k < 0.2 and (n <= 300 or rnd.random() < 0.02):
        n = n                      # at the limit
    else:
        k = 1.0
        n = rnd.randrange(1, min(n, 80) + 1)
    atoms = STR_ATOMS + (MULTILINE_ATOMS * 2 if MULTILINE[0] else [])
    s = "".join(rnd.choice(atoms) for _ in range(n))[:n].strip()
    if rnd.random() < 0.25:
        frag = rnd.choice(ENTITY_LIKE)
        if len(frag) <= n:
            p = rnd.randrange(0, n - len(frag) + 1)
            s = (s[:p] + frag + s[p + len(frag):])[:n].strip()
    while len(s) < 1:
        s = "x"
    if len(s) < n and k < 0.2:
        s = s + "x" * (n - len(s))
    return s


def dt_text(rnd, isT):
    import datetime
    lo = datetime.datetime(1900, 1, 1, tzinfo=datetime.timezone.utc)
    inst = lo + datetime.timedelta(days=rnd.randrange(109000), seconds=rnd.randrange(86400), milliseconds=rnd.randrange(1000))
    if rnd.random() < 0.12:
        # far from 1970 (open-ended "never expires" dates, historical records): every millisecond counts there too
        # (29 February becomes the 28th: most of these years are not leap years)
        inst = inst.replace(year=rnd.choice([1600, 1699, 2300, 4000, 9990]), day=min(inst.day, 28) if inst.month == 2 else inst.day)
    off = rnd.choice([0, 0, -300, 330, -570, 60, -720, 840, rnd.randrange(-720, 841)])
    loc = inst.astimezone(datetime.timezone(datetime.timedelta(minutes=off)))
    date = "" if isT else loc.strftime("%Y%m%d")
    hms = loc.strftime("%H%M%S")
    ms = "%03d" % (loc.microsecond // 1000)
    a = abs(off)
    form = rnd.choice(["signed", "unsigned", "padded"])
    sign = "-" if off < 0 else ("" if form == "unsigned" else "+")
    ot = sign + ("%02d" % (a // 60) if form == "padded" else str(a // 60)) + (".%02d" % (a % 60) if a % 60 else "")
    nm = rnd.choice(["", ":EST", ":GMT", ":Z z"])
    forms = [date + hms, date + hms + "." + ms, date + hms + "." + ms + "[" + ot + nm + "]", date + hms + "[" + ot + nm + "]"]
    if not isT:
        forms.append(date)
    return rnd.choice(forms)


def text_for(t, rnd, rich=True, wire=False):
    """a text of type t; wire=True: markup characters escaped as they must be on the wire"""
    k = t["k"]
    if k == "bool":
        return rnd.choice("YN")
    if k == "oneof":
        return uncps(rnd.choice(t["valid"]))
    if k == "int":
        n = t["len"] if t["len"] != -1 else rnd.choice([1, 4, 9, 15])
        v = rnd.choice([10 ** n - 1, 0, rnd.randrange(10 ** n)])
        return rnd.choice(["", "", "-", "+"]) + str(v) if rich else str(v)
    if k == "dec":
        ip = str(rnd.randrange(10 ** rnd.randrange(1, 9)))
        if rich and rnd.random() < 0.08:
            ip = str(rnd.randrange(10 ** 26, 10 ** 34))        # more significant digits than decimal's default context keeps
        fp = "".join(rnd.choice("0123456789") for _ in range(rnd.randrange(0, 7)))
        if rich and rnd.random() < 0.1:
            return rnd.choice(["0.00", "-0.000", "0", "0.0", "+0.0000", "0,00", "000.10", "-0"])     # zeros keep their exponent
        sep = rnd.choice(".,") if rich else "."
        return rnd.choice(["", "", "-", "+"] if rich else ["", "-"]) + ip + (sep + fp if fp else "")
    if k in ("dt", "time"):
        return dt_text(rnd, k == "time") if rich else ("20200102030405.123[-5:EST]" if k == "dt" else "030405.123[-5:EST]")
    if k in ("str", "nag"):
        v = str_value(rnd, t["len"]) if rich else "a"
        if wire:
            return "".join(ENT[c] if c in "&<>" else (ENT[c] if c in ENT and rnd.random() < 0.3 else c) for c in v)
        # model-level text (Element.text): entity spellings are decoded by the converter
        if "&" in v or rnd.random() < 0.3:
            return "".join(ENT[c] if c == "&" or (c in ENT and rnd.random() < 0.5) else c for c in v)
        return v
    return "x"


def concretise(gdoc, types, rnd, rich=True, wire=False):
    out = []
    for t in gdoc:
        if t["e"] == "open":
            out.append(dc.T_open(t["tag"]))
        elif t["e"] == "close":
            out.append(dc.T_CLOSE)
        else:
            out.append(dc.T_leaf(t["tag"], text_for(types[int(t["ty"][1:])], rnd, rich=rich, wire=wire)))
    return out
