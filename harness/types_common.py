"""Recorder for the element data types: runs Element.convert / unconvert of the real
code and projects inputs and outcomes to the abstract values of OFXTypes.tla."""
import datetime
import decimal
import warnings

from core import cps, uncps

EPOCH = datetime.datetime(1970, 1, 1, tzinfo=datetime.timezone.utc)


class NamelessTZ(datetime.tzinfo):
    def __init__(self, minutes):
        self.m = minutes

    def utcoffset(self, dt):
        return datetime.timedelta(minutes=self.m)

    def tzname(self, dt):
        return None

    def dst(self, dt):
        return datetime.timedelta(0)


class RuleTZ(datetime.tzinfo):
    """a PEP 495 zone with one daylight period: offset `dst` (minutes) for UTC instants in [start, end), `std`
    otherwise; wall times of the repeated hour are told apart by `fold`"""

    def __init__(self, std, dst, start, end, names):
        self.std, self.dst_, self.start, self.end, self.names = std, dst, start, end, names

    def _valid(self, off, u):
        return (off == self.dst_) == (self.start <= u < self.end)

    def _off(self, dt):
        if dt is None:
            return self.std
        naive = dt.replace(tzinfo=None, fold=0)
        cands = [off for off in sorted({self.std, self.dst_}, reverse=True)
                 if self._valid(off, naive - datetime.timedelta(minutes=off))]
        if len(cands) == 2:
            return cands[dt.fold]          # repeated hour: fold 0 = first pass (earlier instant, larger offset)
        if len(cands) == 1:
            return cands[0]
        lo, hi = sorted((self.std, self.dst_))
        return lo if dt.fold == 0 else hi    # skipped hour

    def utcoffset(self, dt):
        # the rules depend on the date: a bare time has no offset (as with zoneinfo)
        return None if dt is None else datetime.timedelta(minutes=self._off(dt))

    def dst(self, dt):
        return None if dt is None else datetime.timedelta(minutes=self._off(dt) - self.std)

    def tzname(self, dt):
        return None if dt is None else (self.names[0] if self._off(dt) == self.std else self.names[1])

    def fromutc(self, dt):
        u = dt.replace(tzinfo=None)
        off = self.dst_ if self.start <= u < self.end else self.std
        other = self.std if off == self.dst_ else self.dst_
        local = u + datetime.timedelta(minutes=off)
        u2 = local - datetime.timedelta(minutes=other)
        fold = 1 if (other != off and self._valid(other, u2) and u2 < u) else 0
        return local.replace(tzinfo=self, fold=fold)


def ty(k, len=-1, scale=-1, valid=(), req=False):
    return {"k": k, "len": len, "scale": scale, "valid": [cps(v) for v in valid], "req": bool(req)}


def make_element(t):
    from ofxtools import Types
    k = t["k"]
    req = t["req"]
    ln = None if t["len"] == -1 else t["len"]
    if k == "bool":
        return Types.Bool(required=req)
    if k == "str":
        return Types.String(ln, required=req)
    if k == "nag":
        return Types.NagString(ln, required=req)
    if k == "oneof":
        return Types.OneOf(*[uncps(v) for v in t["valid"]], required=req)
    if k == "int":
        return Types.Integer(ln, required=req)
    if k == "dec":
        sc = None if t["scale"] == -1 else t["scale"]
        return Types.Decimal(sc, required=req)
    if k == "dt":
        return Types.DateTime(required=req)
    if k == "time":
        return Types.Time(required=req)
    raise ValueError(k)


def ty_of_element(el):
    """Descriptor of a live Element instance (declaration data only)."""
    from ofxtools import Types
    if isinstance(el, Types.ListElement):
        return ty_of_element(el.converter)
    req = bool(getattr(el, "required", False))
    if isinstance(el, Types.Bool):
        return ty("bool", req=req)
    if isinstance(el, Types.NagString):
        return ty("nag", len=-1 if el.length is None else el.length, req=req)
    if isinstance(el, Types.String):
        return ty("str", len=-1 if el.length is None else el.length, req=req)
    if isinstance(el, Types.OneOf):
        return ty("oneof", valid=[v for v in el.valid if isinstance(v, str)], req=req)
    if isinstance(el, Types.Integer):
        return ty("int", len=-1 if el.length is None else el.length, req=req)
    if isinstance(el, Types.Decimal):
        sc = -1
        if el.scale is not None:
            sc = -el.scale.as_tuple().exponent
        return ty("dec", scale=sc, req=req)
    if isinstance(el, Types.Time):
        return ty("time", req=req)
    if isinstance(el, Types.DateTime):
        return ty("dt", req=req)
    return None


def project(v):
    """Python value -> abstract value record."""
    if v is None:
        return {"t": "none"}
    if isinstance(v, bool):
        return {"t": "bool", "b": v}
    if isinstance(v, str):
        return {"t": "str", "s": cps(v)}
    if isinstance(v, int):
        return {"t": "int", "neg": v < 0, "d": [int(c) for c in str(abs(v))]}
    if isinstance(v, decimal.Decimal):
        sign, digits, exp = v.as_tuple()
        if not isinstance(exp, int):
            return {"t": "decspecial", "s": cps(str(v))}
        d = list(digits)
        while len(d) > 1 and d[0] == 0:
            d.pop(0)
        return {"t": "dec", "neg": bool(sign), "d": d, "exp": exp}
    if isinstance(v, datetime.datetime):
        if v.utcoffset() is None:
            return {"t": "naive"}
        delta = v - EPOCH
        us = delta.seconds * 1000000 + delta.microseconds
        r = {"t": "dt", "day": delta.days, "ms": us // 1000}
        if us % 1000 or v.utcoffset() != datetime.timedelta(0):
            r["us"] = us % 1000
            r["off"] = int(v.utcoffset().total_seconds() // 60)
        return r
    if isinstance(v, datetime.time):
        if v.utcoffset() is None:
            return {"t": "naive"}
        us = ((v.hour * 60 + v.minute) * 60 + v.second) * 1000000 + v.microsecond
        r = {"t": "time", "ms": us // 1000}
        if us % 1000 or v.utcoffset() != datetime.timedelta(0):
            r["us"] = us % 1000
            r["off"] = int(v.utcoffset().total_seconds() // 60)
        return r
    return {"t": "other", "s": cps(repr(v)[:40])}


def concretise(a):
    """abstract value record -> Python value (input of unconvert)."""
    t = a["t"]
    if t == "none":
        return None
    if t == "bool":
        return a["b"]
    if t == "str":
        return uncps(a["s"])
    if t == "int":
        n = int("".join(str(x) for x in a["d"]))
        return -n if a["neg"] else n
    if t == "dec":
        return decimal.Decimal((1 if a["neg"] else 0, tuple(a["d"]), a["exp"]))
    if t == "decspecial":
        return decimal.Decimal(uncps(a["s"]))
    if t == "float":
        return float(uncps(a["s"]))
    if t == "naivedt":
        return datetime.datetime(2020, 1, 2, 3, 4, 5)
    if t == "naivetime":
        return datetime.time(3, 4, 5)
    if t in ("dtv", "timev"):
        if a["hasname"]:
            tz = datetime.timezone(datetime.timedelta(minutes=a["off"]), uncps(a["name"]))
        else:
            tz = NamelessTZ(a["off"])
        if t == "dtv":
            u = EPOCH + datetime.timedelta(days=a["day"], milliseconds=a["ms"], microseconds=a["us"])
            return u.astimezone(tz)
        us = (a["ms"] * 1000 + a["us"] + a["off"] * 60000000) % 86400000000
        s, us = divmod(us, 1000000)
        return datetime.time(s // 3600, (s // 60) % 60, s % 60, us, tzinfo=tz)
    raise ValueError(t)


def dtv(dt):
    """aware datetime -> abstract 'dtv' input value"""
    delta = dt - EPOCH
    us = delta.seconds * 1000000 + delta.microseconds
    name = dt.tzname()
    return {"t": "dtv", "kind": "dt", "day": delta.days, "ms": us // 1000, "us": us % 1000,
            "off": int(dt.utcoffset().total_seconds() // 60), "hasname": name is not None,
            "name": cps(name or "")}


def call(fn, arg):
    """-> (ok, result, warned, exception name)"""
    with warnings.catch_warnings(record=True) as w:
        warnings.simplefilter("always")
        try:
            r = fn(arg)
            return True, r, len(w) > 0, ""
        except Exception as e:  # any exception is a rejection / refusal
            return False, None, len(w) > 0, type(e).__name__


def ev_conv(eid, t, text, el=None):
    el = el or make_element(t)
    ok, r, warned, exc = call(el.convert, text)
    out = project(r) if ok else {"t": "reject"}
    return {"id": eid, "op": "conv", "ty": t, "txt": cps(text), "out": out, "warn": warned, "exc": exc}


def ev_unconv(eid, t, a, el=None, pyval=None):
    el = el or make_element(t)
    v = concretise(a) if pyval is None else pyval
    ok, r, warned, exc = call(el.unconvert, v)
    if not ok:
        out = {"t": "refuse"}
    elif r is None:
        out = {"t": "none"}
    elif isinstance(r, str):
        out = {"t": "text", "s": cps(r)}
    else:
        out = {"t": "nontext", "s": cps(repr(r)[:40])}
    return {"id": eid, "op": "unconv", "ty": t, "v": a, "out": out, "warn": warned, "exc": exc}


def ev_rt(eid, t, a, el=None):
    """unconvert then convert on the real code; None if the write was refused"""
    el = el or make_element(t)
    v = concretise(a)
    ok, r, _, _ = call(el.unconvert, v)
    if not ok or not isinstance(r, str):
        return None
    ok2, back, _, _ = call(el.convert, r)
    return {"id": eid, "op": "rt", "ty": t, "v": a, "text": cps(r),
            "back": project(back) if ok2 else {"t": "reject"}}


def ev_fix(eid, t, text, el=None):
    """convert, unconvert, convert, unconvert: canonical text is a fixed point"""
    el = el or make_element(t)
    ok, v, _, _ = call(el.convert, text)
    if not ok or v is None:
        return None
    vtext = cps(v) if isinstance(v, str) else []
    ok, t2, _, _ = call(el.unconvert, v)
    if not ok or not isinstance(t2, str):
        return {"id": eid, "op": "fix", "ty": t, "txt": cps(text), "t2": [0], "t3": [1], "vtext": vtext}
    ok, v2, _, _ = call(el.convert, t2)
    ok2, t3, _, _ = call(el.unconvert, v2) if ok else (False, None, 0, 0)
    return {"id": eid, "op": "fix", "ty": t, "txt": cps(text), "t2": cps(t2),
            "t3": cps(t3) if ok2 and isinstance(t3, str) else [1], "vtext": vtext}


def describe(e):
    d = {"op": e["op"], "type": e["ty"]["k"]}
    if "txt" in e:
        d["text"] = uncps(e["txt"])
    if "v" in e:
        d["value"] = {k: (uncps(v) if k in ("name", "s") and isinstance(v, list) else v) for k, v in e["v"].items()}
        if e["v"].get("t") == "str":
            d["value_text"] = uncps(e["v"]["s"])
    if e.get("vtext"):
        d["value_text"] = uncps(e["vtext"])
    d["typarams"] = {"len": e["ty"]["len"], "scale": e["ty"]["scale"], "req": e["ty"]["req"]}
    if "out" in e:
        o = e["out"]
        d["out"] = uncps(o["s"]) if o.get("t") == "text" else o
    if "back" in e:
        d["back"] = e["back"]
    if e.get("exc"):
        d["exc"] = e["exc"]
    return d


def judge(ctx, module, evs, what_prefix=""):
    mism = ctx.validate_trace(module, evs)
    byid = {e["id"]: e for e in evs}
    for eid, clauses in mism.items():
        e = byid[eid]
        d = describe(e)
        for cl in clauses:
            case = dict(d, clause=cl.split(" ")[0], detail=cl,
                        what="%s%s: %s" % (what_prefix, cl, d))
            ctx.fail(case)
    return mism


