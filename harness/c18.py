"""C18 - ofxget settings obey CLI > user file > FI db > OFX Home > defaults, and persist.

M: MC_GetConfig: over all histories of runs (2 servers, options incl. one served by OFX Home, values
   equal and unequal to the defaults) the reference write rule satisfies Precedence, Persist,
   DryStoresNothing, NoWriteStoresNothing, UidStable, OtherServersUntouched.  (With the rule the library
   used to have - never drop a stored value - TLC produces the write-X / write-default / read-X history.)
G/T: seeded histories of 2..5 runs on one configuration file through the real argument parser,
   merge_config, handlers and write_config, modules re-imported for every run, a generated FI database
   in place of fi.cfg, OFX Home and the network faked; the effective settings of every run, and the file
   after it, are validated by the STATEFUL trace specification Trace_GetConfig.
"""
import configparser
import random
from collections import namedtuple

import doc_common as dc
import export_schema
import ofx_server
import ofxget_env
from core import cps, MachineryError

US = "\x1f"
STR_OPTS = ["url", "ofxhome", "org", "fid", "brokerid", "bankid", "appid", "appver", "language", "useragent", "user", "clientuid"]
BOOL_OPTS = ["pretty", "nonewfileuid", "skipprofile", "unclosedelements"]
LIST_OPTS = ["checking", "savings", "moneymrkt", "creditline", "creditcard", "investment"]
OPTS = STR_OPTS + ["version"] + BOOL_OPTS + LIST_OPTS
CLIFLAG = {"url": "--url", "ofxhome": "--ofxhome", "org": "--org", "fid": "--fid", "brokerid": "--brokerid", "bankid": "--bankid",
           "appid": "--appid", "appver": "--appver", "language": "--language", "useragent": "--useragent", "user": "--user",
           "clientuid": "--clientuid", "version": "--version", "pretty": "--pretty", "nonewfileuid": "--nonewfileuid",
           "skipprofile": "--skipprofile", "unclosedelements": "--unclosedelements", "checking": "-C", "savings": "-S", "moneymrkt": "-M", "creditline": "-L",
           "creditcard": "-c", "investment": "-i"}
POOL = {"url": ["https://a.invalid/ofx", "https://b.invalid/?a=1%20b", "https://c.invalid/x;y=z&k=v%41", "https://fi.invalid/ofx",
                # (a URL is taken as typed: an empty query / fragment marker or an upper-case scheme is not "cleaned up")
                "https://q.invalid/ofx.dll?", "https://f.invalid/ofx#", "HTTPS://Up.invalid/OFX"],
        "ofxhome": ["424", "555"], "org": ["ORG", "O&G", "Org 2"], "fid": ["1", "7007"], "brokerid": ["brk.com", "b2"],
        "bankid": ["111", "222"], "appid": ["QWIN", "APP"], "appver": ["2700", "1"], "language": ["ENG", "FRA"],
        "useragent": ["ua/1", "x y"], "user": ["usr", "u2"], "clientuid": ["CUID-1", "cuid2"],
        "version": ["102", "103", "160", "203", "220"]}
LISTS = [["1"], ["1", "2 x"], ["a.b", "c-d", "e_f"], ["9"]]
Lookup = namedtuple("Lookup", "url org fid brokerid")


def canon(v):
    if v is None or v == "" or v == []:
        return ""
    if isinstance(v, bool):
        return "true" if v else "false"
    if isinstance(v, list):
        return US.join(str(x) for x in v)
    return str(v)


def parse_file(text):
    """independent reading of ofxget.cfg (plain INI, no interpolation) -> ({server: {opt: canon}}, default uid)"""
    cp = configparser.RawConfigParser()
    cp.read_string(text)
    out = {}
    for s in cp.sections():
        sect = {o: "" for o in OPTS}
        for o, v in cp._sections[s].items():
            if o in LIST_OPTS:
                v = US.join(x.strip() for x in v.split(","))
            if o in BOOL_OPTS:
                # every spelling the INI dialect allows
                v = {"1": "true", "yes": "true", "true": "true", "on": "true", "0": "", "no": "", "false": "", "off": ""}.get(v.strip().lower(), v)
            if o in OPTS:
                sect[o] = v
        out[s] = sect
    uid = cp.defaults().get("clientuid", "")
    return out, uid


def run(ctx):
    quick = ctx.tier == "quick"
    schema, types = export_schema.write(ctx)
    mins, _ = dc.mindocs(ctx)
    rnd = random.Random(ctx.seed * 492876847 + 18)
    ctx.rule = ("M: all states of MC_GetConfig; T: seeded histories of 2..5 ofxget runs (random subsets of sources setting each "
                "option: command line, user file, FI database, OFX Home, defaults; URLs with '%', values equal to the defaults, "
                "account lists of 0..3 entries, booleans, versions) on one configuration file; non-trivial = distinct (option, "
                "set of sources that set it, written or not) combinations")
    r = ctx.tlc("MC_GetConfig", "SPECIFICATION Spec\nCONSTANTS\n MaxRuns = %d\n Rule = \"ref\"\nINVARIANT Precedence\nINVARIANT Persist\n"
                "PROPERTY DryStoresNothing\nPROPERTY NoWriteStoresNothing\nPROPERTY UidStable\nPROPERTY OtherServersUntouched\n" % 2,
                tag="mc", timeout=900)
    if r.violated:
        raise MachineryError("MC_GetConfig: %s" % r.violated)
    if not quick:
        # longer histories (4 runs in a row) are beyond exhaustive reach (three runs did not finish in 15 minutes): the
        # state invariants are checked along random behaviours instead
        r = ctx.tlc("MC_GetConfig", "SPECIFICATION Spec\nCONSTANTS\n MaxRuns = 4\n Rule = \"ref\"\nINVARIANT Precedence\nINVARIANT Persist\n",
                    tag="mc-sim4", timeout=1500, workers=8, simulate="num=20000", depth=12)
        if r.violated:
            raise MachineryError("MC_GetConfig (simulation, 4 runs): %s" % r.violated)
    env = ofxget_env.Env(ctx.work + "/ofxget")

    def responder(url, body):
        if b"<PROFRQ>" in body:
            return ofx_server.profile(mins, url).encode()
        if b"<ACCTINFORQ>" in body:
            return ofx_server.acctinfo(mins, []).encode()        # (no accounts: discovery is C19's)
        return ofx_server.empty_response(mins).encode()
    env.responder = responder
    import ofxtools.scripts.ofxget as og0
    dflt = {o: canon(og0.DEFAULTS[o]) for o in OPTS}
    evs = []
    H = 40 if quick else 1200
    for h in range(H):
        # FI database and OFX Home for this history
        fidb = {}
        for s in ("srv1", "srv2"):
            sect = {}
            for o in ("url", "version", "org", "fid", "brokerid", "ofxhome", "appid", "pretty", "bankid"):
                if rnd.random() < 0.4:
                    sect[o] = rnd.choice(POOL[o]) if o in POOL else "true"
            if "url" not in sect and "ofxhome" not in sect and rnd.random() < 0.7:
                sect["url"] = "https://fi.invalid/ofx"
            sect.setdefault("bankid", "111")        # bank / investment requests need an id from somewhere
            sect.setdefault("brokerid", "brk.com")
            fidb[s] = sect
        env.write_fidb("".join("[%s]\n%s\n" % (s, "".join("%s = %s\n" % kv for kv in sect.items())) for s, sect in fidb.items()))
        # (the URL of 424 has '&' followed by names that are HTML entities without their ';')
        home = {"424": Lookup("https://home424.invalid/ofx?lang=en&region=us&copy=1", "HOME&ORG <1>", rnd.choice(["4240", "A & B 42"]), "home.brk"),
                "555": Lookup("https://home555.invalid/?q=%7E", "H5", None, None)}
        env.ofxhome = home
        env.ofxhome_wire = h % 3 != 0        # mostly through the real ofxhome.lookup over a fake OFX Home (XML records)
        env.write_usercfg("")
        if env.usercfg_path.exists():
            env.usercfg_path.unlink()
        # sometimes the user has edited ofxget.cfg by hand: any spelling of a boolean, blanks around list separators
        file0 = {s_: {o: "" for o in OPTS} for s_ in ("srv1", "srv2")}
        if rnd.random() < 0.4:
            text0 = ""
            for s_ in ("srv1", "srv2"):
                if rnd.random() < 0.7:
                    text0 += "[%s]\n" % s_
                    for o in OPTS:
                        if o in ("clientuid", "ofxhome") or rnd.random() > 0.25 or (o == "unclosedelements" and rnd.random() < 0.7):
                            continue
                        if o in BOOL_OPTS:
                            text0 += "%s = %s\n" % (o, rnd.choice(["true", "yes", "on", "1", "True", "YES"]))
                            file0[s_][o] = "true"
                        elif o in LIST_OPTS:
                            items = rnd.choice(LISTS)
                            text0 += "%s = %s\n" % (o, rnd.choice([", ", ",", " , "]).join(items))
                            file0[s_][o] = US.join(items)
                        else:
                            v0 = rnd.choice(POOL[o])
                            text0 += "%s = %s\n" % (o, v0)
                            file0[s_][o] = v0
                    text0 += "\n"
            if text0:
                env.write_usercfg(text0)
        evs.append({"id": "h%d" % h, "op": "env", "opts": OPTS, "dflt": {o: cps(dflt[o]) for o in OPTS},
                    "fidb": {s: {o: cps(fidb[s].get(o, "")) for o in OPTS} for s in fidb},
                    "home": [{"id": cps(k), "url": cps(v.url or ""), "org": cps(v.org or ""), "fid": cps(v.fid or ""),
                              "brokerid": cps(v.brokerid or "")} for k, v in home.items()],
                    "file": {s: {o: cps(file0[s][o]) for o in OPTS} for s in ("srv1", "srv2")}})
        password = "S3cr3t-" + str(h)
        nsteps = rnd.randrange(2, 6)
        # the first histories are directed: every command as a writing dry run (h0) and as a plain dry run (h1) - a dry run
        # stores nothing whatever the command, independent of where the random stream happens to go
        directed = h in (0, 1)
        for step in range(4 if directed else nsteps):
            srv = rnd.choice(["srv1", "srv1", "srv2"])
            cli = {}
            for o in OPTS:
                if o == "unclosedelements" and rnd.random() < 0.6:
                    continue      # (with a 2xx version the request itself is impossible: mostly left out)
                if rnd.random() < 0.18:
                    if o in LIST_OPTS:
                        cli[o] = rnd.choice(LISTS)
                    elif o in BOOL_OPTS:
                        cli[o] = True
                    else:
                        cli[o] = rnd.choice(POOL[o])
            # an option given as the empty text on the command line: "explicitly nothing" outranks the lower sources
            blank = set()
            for o in ("org", "fid", "ofxhome", "useragent"):      # (a blank user / broker id makes the request itself impossible)
                if o not in cli and rnd.random() < 0.06:
                    cli[o] = ""
                    blank.add(o)
            write = rnd.random() < 0.55
            dry = rnd.random() < 0.2
            # (every command that takes the settings; acctinfo needs a user from somewhere)
            cmd = rnd.choice(["stmt", "stmt", "stmt", "stmtend", "prof", "acctinfo"])
            if directed:
                cmd = ["acctinfo", "stmt", "prof", "stmtend"][step]
                write, dry = (h == 0), True
            if cmd == "acctinfo" and "user" not in cli:
                cli["user"] = rnd.choice(POOL["user"])
            if cmd == "prof":
                cli = {o: v for o, v in cli.items() if o not in LIST_OPTS and o not in ("bankid", "brokerid")}
            if cmd == "acctinfo":
                cli = {o: v for o, v in cli.items() if o not in LIST_OPTS and o not in ("bankid", "brokerid")}
            if cmd == "stmtend":
                cli = {o: v for o, v in cli.items() if o not in ("investment", "brokerid")}
            argv = [cmd, srv, "--password", password]
            for o, v in cli.items():
                if o in LIST_OPTS:
                    for x in v:
                        argv += [CLIFLAG[o], x]
                elif o in BOOL_OPTS:
                    argv.append(CLIFLAG[o])
                else:
                    argv += [CLIFLAG[o], v]
            if write:
                argv.append("--write")
            if dry:
                argv.append("--dryrun")
            res = env.run(argv)
            text = env.read_usercfg()
            try:
                after, afteruid = parse_file(text)
                parsed = True
            except Exception:
                after, afteruid, parsed = {}, "", False
            ran = bool(res["args"]) and (res["ok"] or not res["exc"].startswith("SystemExit"))
            if res["exc"] and not res["ok"]:
                # the handler failed after merging (e.g. a request the fake server cannot serve): judge precedence only
                ran = bool(res["args"]) and "Missing URL" not in res["exc"]
            ev = {"id": "h%dr%d" % (h, step), "op": "run", "failed": bool(res["exc"]), "srv": srv, "cli": {o: ([0] if o in blank else cps(canon(cli.get(o)))) for o in OPTS},
                  "write": write, "dry": dry, "ran": ran and parsed and (res["ok"] or not write),
                  "eff": {o: cps(canon(res["args"].get(o))) for o in OPTS},
                  "after": {s: {o: cps(after.get(s, {}).get(o, "")) for o in OPTS} for s in ("srv1", "srv2")},
                  "afteruid": cps(afteruid), "password": cps(password), "filetext": cps(text), "argv": " ".join(argv), "exc": res["exc"]}
            evs.append(ev)
            for o in OPTS:
                srcs = (o in cli, bool(fidb[srv].get(o)), write and not dry)
                ctx.nontrivial.add((o, srcs))
            if not ev["ran"] and write and not dry and res["exc"]:
                # a failed writing run: the file must still be what the next run reads; re-synchronise the spec state
                pass
    # G: behaviours of the specification (tlc -simulate on MC_GetConfig) replayed on the real ofxget
    A2C = {"url": {"a": "https://a.invalid/ofx", "b": "https://b.invalid/?a=1%20b", "d": "https://d.invalid/x"},
           "version": {"a": "102", "b": "160", "d": "203"}, "user": {"a": "usr", "b": "u2", "d": "u3"}}
    sim = ctx.tlc("MC_GetConfig", "SPECIFICATION Spec\nCONSTANTS\n MaxRuns = 4\n Rule = \"ref\"\nCONSTRAINT Emit\n", workers=1,
                  simulate="num=%d" % (100 if quick else 3000), depth=6, tag="sim")
    hists = sim.printed_json("HIST")
    ctx.extra["spec_behaviours_replayed"] = len(hists)
    fidb = {"srv1": {"url": A2C["url"]["a"]}, "srv2": {"version": A2C["version"]["b"], "ofxhome": "1"}}
    home = {"1": Lookup(A2C["url"]["b"], "HORG", "HFID", None)}
    for hi, hrec in enumerate(hists):
        env.write_fidb("".join("[%s]\n%s\n" % (s_, "".join("%s = %s\n" % kv for kv in sect.items())) for s_, sect in fidb.items()))
        env.ofxhome = home
        if env.usercfg_path.exists():
            env.usercfg_path.unlink()
        evs.append({"id": "g%d" % hi, "op": "env", "opts": OPTS, "dflt": {o: cps(dflt[o]) for o in OPTS},
                    "fidb": {s_: {o: cps(fidb[s_].get(o, "")) for o in OPTS} for s_ in fidb},
                    "home": [{"id": cps(k), "url": cps(v.url or ""), "org": cps(v.org or ""), "fid": cps(v.fid or ""),
                              "brokerid": cps(v.brokerid or "")} for k, v in home.items()],
                    "file": {s_: {o: [] for o in OPTS} for s_ in ("srv1", "srv2")}})
        password = "S3cr3t-g%d" % hi
        for step, rr in enumerate(hrec["hist"]):
            srv = {"s1": "srv1", "s2": "srv2"}[rr["srv"]]
            cli = {o: A2C[o][chr(v[0])] for o, v in rr["cli"].items() if v}
            argv = ["stmt", srv, "--password", password]
            for o, v in cli.items():
                argv += [CLIFLAG[o], v]
            if rr["write"]:
                argv.append("--write")
            if rr["dry"]:
                argv.append("--dryrun")
            res = env.run(argv)
            text = env.read_usercfg()
            try:
                after, afteruid = parse_file(text)
                parsed = True
            except Exception:
                after, afteruid, parsed = {}, "", False
            ran = bool(res["args"]) and res["ok"] and parsed
            evs.append({"id": "g%dr%d" % (hi, step), "op": "run", "failed": bool(res["exc"]), "srv": srv,
                        "cli": {o: cps(canon(cli.get(o))) for o in OPTS}, "write": rr["write"], "dry": rr["dry"], "ran": ran,
                        "eff": {o: cps(canon(res["args"].get(o))) for o in OPTS},
                        "after": {s_: {o: cps(after.get(s_, {}).get(o, "")) for o in OPTS} for s_ in ("srv1", "srv2")},
                        "afteruid": cps(afteruid), "password": cps(password), "filetext": cps(text), "argv": " ".join(argv),
                        "exc": res["exc"]})
            for o in ("url", "version", "user"):
                ctx.nontrivial.add(("sim", o, o in cli, rr["write"] and not rr["dry"]))
    ctx.evaluations = len(evs)
    for e in evs[1:3]:
        ctx.sample({"argv": e["argv"], "effective": {o: "".join(map(chr, v)) for o, v in e["eff"].items() if v}, "exc": e["exc"]})
    mism = ctx.validate_histories("Trace_GetConfig", evs)
    byid = {e["id"]: e for e in evs}
    for eid, clauses in mism.items():
        e = byid[eid]
        for cl in clauses:
            ctx.fail({"clause": cl.split(" ")[0], "option": cl.split(" ")[1] if " " in cl else "", "argv": e["argv"], "exc": e["exc"],
                      "file": "".join(map(chr, e["filetext"]))[:800],
                      "what": "%s argv=[%s] exc=%s file=%r" % (cl, e["argv"], e["exc"], "".join(map(chr, e["filetext"]))[:300])})
