"""Runs the repository's own tests under the recording plugin and validates one recorded stream."""
import json
import os
import subprocess
import sys

from core import REPO, VERIF, MachineryError

MODULE = {"syntax": "Trace_Syntax", "header": "Trace_Header", "doc": "Trace_Doc", "types": "Trace_Types"}


def record(ctx, stream, tests=None):
    out = os.path.join(ctx.work, "rec-" + stream)
    env = dict(os.environ, VERIF_RECORD_DIR=out, VERIF_RECORD=stream, PYTHONHASHSEED="0", PYTHONDONTWRITEBYTECODE="1",
               PYTHONPATH=os.pathsep.join([REPO, os.path.join(VERIF, "harness")]))
    cmd = [sys.executable, "-m", "pytest", "-q", "-p", "no:cacheprovider", "-p", "verif_recorder", "-x", "--no-header"] + (tests or ["tests"])
    p = subprocess.run(cmd, cwd=REPO, env=env, capture_output=True, text=True, timeout=1800)
    tail = (p.stdout or "")[-600:]
    path = os.path.join(out, stream + ".ndjson")
    evs = []
    if os.path.exists(path):
        with open(path) as f:
            evs = [json.loads(l) for l in f]
    ctx.extra["repo_tests_recorded_" + stream] = {"events": len(evs), "pytest_tail": tail.strip().splitlines()[-1] if tail.strip() else ""}
    if "passed" not in tail:
        raise MachineryError("repository tests did not run under the recorder:\n" + tail + (p.stderr or "")[-800:])
    return evs
