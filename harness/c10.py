"""C10 - element type converters are mutually inverse, canonical, strict at limits.

M: MC_Types (mode ty): RoundTrip, Canonical, NonePasses, WrongTypeRefused, WrittenIsLexical,
   Limits on a boundary grid of type parameterisations.
G: every grid case is executed on the real Element classes (and through ListElement).
T: seeded random parameterisations x texts x values x wrong-typed values; every call is
   re-computed by TLC (Trace_Types).
"""
import random

import types_common as tc
from core import cps, uncps, MachineryError

CFG = """SPECIFICATION Spec
CONSTANTS
  Years = {2000}
  OffStep = 60
  Mode = "ty"
%s
CONSTRAINT Emit
"""
INVS = ["RoundTrip", "Canonical", "NonePasses", "WrongTypeRefused", "WrittenIsLexical", "Limits"]

SPECIALS = ["&", "<", ">", '"', "'", "é", "€", "&amp;", "&lt;", "&gt;", "&nbsp;", "&apos;", "&quot;", "&x;", "a b", "]]>", " "]
ALPHA = "abcXYZ019 .,-_/"


def rnd_str(rnd, n):
    out = ""
    while len(out) < n:
        out += rnd.choice(SPECIALS) if rnd.random() < 0.3 else rnd.choice(ALPHA)
    s = out[:n].strip()
    return s or "x"


def events_for(ctx, rnd, t, i, wrap):
    """a few reads and writes for one type parameterisation"""
    from ofxtools import Types
    el = tc.make_element(t)
    if wrap:
        el = Types.ListElement(el)
    evs = []
    k = t["k"]
    pre = "%s%d" % ("L" if wrap else "E", i)
    texts = []
    vals = []
    if k == "int":
        n = t["len"] if t["len"] != -1 else rnd.randrange(1, 12)
        for base in (10 ** n - 1, 10 ** n, rnd.randrange(0, 10 ** n), 0):
            for sg in ("", "-", "+"):
                texts.append(sg + str(base))
            vals.append({"t": "int", "neg": False, "d": [int(c) for c in str(base)]})
            if base:
                vals.append({"t": "int", "neg": True, "d": [int(c) for c in str(base)]})
        texts += ["00" + str(rnd.randrange(100)), "1.0", "1e3", "abc", "-", "", "12a", "0x10"]
        vals += [{"t": "bool", "b": True}, {"t": "str", "s": cps("12")}, {"t": "float", "s": cps("1.5")},
                 {"t": "dec", "neg": False, "d": [1], "exp": 0}]
    elif k == "dec":
        for _ in range(10):
            ip = str(rnd.randrange(0, 10 ** rnd.randrange(1, 8)))
            fp = "".join(rnd.choice("0123456789") for _ in range(rnd.randrange(0, 8)))
            if rnd.random() < 0.3:
                fp = fp[:max(0, t["scale"])] + rnd.choice(["5", "50", "500", "51", "49"])
            sep = rnd.choice(".,")
            sg = rnd.choice(["", "-", "+"])
            texts.append(sg + ip + (sep + fp if fp or rnd.random() < 0.1 else ""))
        texts += ["1.2.3", "1,234.5", "--1", "abc", ".", "-", "", ".5", "5.", "-0", "-0.000", "12x"]
        for _ in range(8):
            d = [int(c) for c in str(rnd.randrange(0, 10 ** rnd.randrange(1, 10)))]
            e = rnd.randrange(-10, 4) if t["scale"] == -1 or rnd.random() < 0.4 else -t["scale"]
            vals.append({"t": "dec", "neg": rnd.random() < 0.4, "d": d, "exp": e})
        vals += [{"t": "decspecial", "s": cps(x)} for x in ("NaN", "-Infinity", "Infinity", "sNaN")]
        vals += [{"t": "float", "s": cps("1.5")}, {"t": "int", "neg": False, "d": [7]}, {"t": "str", "s": cps("1.5")}]
    elif k in ("str", "nag"):
        n = t["len"] if t["len"] != -1 else rnd.randrange(1, 40)
        for ln in (n, n + 1, max(1, n - 1), 1):
            s = rnd_str(rnd, ln)
            texts.append(s)
            vals.append({"t": "str", "s": cps(s)})
        # over the limit by trailing / leading white space only (padding counts)
        base = rnd_str(rnd, n)
        for pad in (" ", "\t", "\n", "&nbsp;", "  "):
            texts.append(base + pad)
            texts.append(pad + base)
            if not pad.startswith("&"):
                vals.append({"t": "str", "s": cps(base + pad)})
        # entity text whose decoded length is at the limit
        texts.append("&amp;" + "a" * (n - 1))
        texts.append("&lt;" * n)
        texts.append("")
        vals += [{"t": "int", "neg": False, "d": [7]}, {"t": "bool", "b": True}, {"t": "float", "s": cps("1.5")}]
    elif k == "oneof":
        toks = [uncps(v) for v in t["valid"]]
        texts += toks + [toks[0].lower(), toks[0] + "X", "", " " + toks[0], "NOPE"]
        vals += [{"t": "str", "s": cps(x)} for x in toks + ["NOPE", toks[0].lower(), "", " ", toks[0] + " "]]
        vals += [{"t": "int", "neg": False, "d": [7]}]
    elif k == "bool":
        texts += ["Y", "N", "y", "n", "YES", "1", "0", "True", " Y"]
        vals += [{"t": "bool", "b": True}, {"t": "bool", "b": False}, {"t": "str", "s": cps("Y")},
                 {"t": "int", "neg": False, "d": [1]}, {"t": "int", "neg": False, "d": [0]}]
    elif k in ("dt", "time"):
        texts += ["20200229" if k == "dt" else "235959", "x", ""]
        vals += [{"t": "naivedt"}, {"t": "naivetime"}, {"t": "str", "s": cps("20200101")}, {"t": "int", "neg": False, "d": [7]}]
    vals.append({"t": "none"})
    for j, s in enumerate(texts):
        evs.append(tc.ev_conv("%sr%d" % (pre, j), t, s, el=el))
        e = tc.ev_fix("%sf%d" % (pre, j), t, s, el=el)
        if e:
            evs.append(e)
        ctx.nontrivial.add(("r", k, t["len"], t["scale"], t["req"], wrap, evs[-1].get("out", {}).get("t")))
    for j, v in enumerate(vals):
        evs.append(tc.ev_unconv("%sw%d" % (pre, j), t, v, el=el))
        ctx.nontrivial.add(("w", k, t["len"], t["scale"], t["req"], wrap, v["t"], evs[-1]["out"]["t"]))
        if v["t"] in ("int", "dec", "str", "bool"):
            e = tc.ev_rt("%sb%d" % (pre, j), t, v, el=el)
            if e:
                evs.append(e)
    # None on read
    ok, r, _, _ = tc.call(el.convert, None)
    if t["req"] and ok:
        ctx.fail({"what": "required %s accepted None on read" % k, "clause": "none-required", "type": k})
    if not t["req"] and not (ok and r is None):
        ctx.fail({"what": "optional %s did not pass None through on read" % k, "clause": "none-optional", "type": k})
    return evs


def run(ctx):
    quick = ctx.tier == "quick"
    ctx.rule = ("grid = every TLC state of MC_Types mode ty (type parameterisation x text/value); random = seeded "
                "parameterisations (length 1..12/none, scale 0..8/none, required or not, enumeration sets) x boundary "
                "and random texts/values x wrong-typed values, each also through ListElement; non-trivial = distinct "
                "(direction, type, params, wrapper, outcome class)")
    r = ctx.tlc("MC_Types", CFG % "\n".join("INVARIANT " + i for i in INVS), env={"EMITMOD": 0}, tag="mc-ty")
    if r.violated:
        raise MachineryError("model-level theorem violated in MC_Types: %s" % r.violated)
    g = ctx.tlc("MC_Types", CFG % "", env={"EMITMOD": 1}, workers=1, tag="emit-ty")
    evs = []
    n = 0
    for c in g.printed_json("CASE"):
        t = c["ty"]
        if c["dir"] == "r":
            s = uncps(c["x"])
            evs.append(tc.ev_conv("g%d" % n, t, s))
            e = tc.ev_fix("gf%d" % n, t, s)
            if e:
                evs.append(e)
        else:
            evs.append(tc.ev_unconv("g%d" % n, t, c["v"]))
            if c["v"]["t"] != "none":
                e = tc.ev_rt("gb%d" % n, t, c["v"])
                if e:
                    evs.append(e)
        n += 1
    ctx.extra["grid_cases_replayed"] = n
    ctx.exhaustive = False
    rnd = random.Random(ctx.seed * 104729 + 10)
    reps = 6 if quick else 120
    i = 0
    for rep in range(reps):
        params = []
        for ln in [-1] + list(range(1, 13)):
            params.append(tc.ty("int", len=ln, req=rnd.random() < 0.5))
            params.append(tc.ty("str", len=ln, req=rnd.random() < 0.5))
            params.append(tc.ty("nag", len=ln, req=rnd.random() < 0.5))
        for sc in [-1] + list(range(0, 9)):
            params.append(tc.ty("dec", scale=sc, req=rnd.random() < 0.5))
        params.append(tc.ty("bool", req=rnd.random() < 0.5))
        params.append(tc.ty("dt", req=rnd.random() < 0.5))
        params.append(tc.ty("time", req=rnd.random() < 0.5))
        params.append(tc.ty("oneof", valid=rnd.sample(["CALL", "PUT", "A", "CHECKING", "SAVINGS", "X.Y", "0", "é"], rnd.randrange(1, 5)),
                            req=rnd.random() < 0.5))
        for t in params:
            evs += events_for(ctx, rnd, t, i, wrap=(rep % 3 == 2))
            i += 1
    # date-times and times in depth (all notations, offsets, zone names, corruptions, write and read back): the
    # generator of C09, on this property's own seed
    import c09
    evs += [dict(e, id="dt-" + e["id"]) for e in c09.random_events(ctx, rnd, 1200 if quick else 30000)]
    ctx.evaluations = len(evs)
    for e in evs[:2] + evs[-3:]:
        ctx.sample(tc.describe(e))
    if not quick:
        # the repository's own 3592 tests as a trace source (recording plugin, no repository edits)
        import recorded
        rec = recorded.record(ctx, "types")
        for e in rec:
            e["id"] = "repo-" + e["id"]
        evs += rec
        ctx.evaluations = len(evs)
    tc.judge(ctx, "Trace_Types", evs)
