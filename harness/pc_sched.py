"""Step scheduler at the I/O boundary of OFXClient.request_profile (no repository hooks).

Every operation the call performs on the cache directory (open for reading, open for writing,
each write, close, rename/replace) and the network exchange goes through a wrapper installed
from outside (builtins.open / io.open / os.replace / os.rename / OFXClient.post_request).  Each
wrapper is a YIELD POINT: the calling thread parks until the driver releases it.  A crash is
delivered at a yield point: the thread unwinds with a BaseException and the proxy file object
closes its descriptor without writing anything more (nothing is buffered: writes go straight to
os.write, in two halves, so a torn write is observable)."""
import builtins
import io
import os
import re
import threading
import urllib.error


class Crash(BaseException):
    pass


class _Writer:
    """unbuffered writer whose write()/close() are yield points"""

    def __init__(self, sched, path):
        self.sched = sched
        self.path = path
        self.fd = os.open(path, os.O_WRONLY | os.O_CREAT | os.O_TRUNC, 0o644)

    def write(self, data):
        data = bytes(data)
        half = max(1, len(data) // 2)
        for part in (data[:half], data[half:]):
            if part:
                self.sched.at("write", self.path)
                os.write(self.fd, part)
        return len(data)

    def close(self):
        if self.fd is not None:
            try:
                self.sched.at("close", self.path)
            finally:
                os.close(self.fd)
                self.fd = None

    def __enter__(self):
        return self

    def __exit__(self, et, ev, tb):
        if et is not None and issubclass(et, Crash):
            if self.fd is not None:
                os.close(self.fd)
                self.fd = None
            return False
        self.close()
        return False


class Sched:
    """one scheduler per scenario; threads register themselves through thread-local state"""

    def __init__(self, root):
        self.root = os.path.realpath(str(root))
        self.cv = threading.Condition()
        self.local = threading.local()
        self.state = {}       # tid -> dict(pending=(op, path) | None, grant=None|'go'|'crash', done=bool, result=...)
        self.oplog = []       # (tid, op, path)
        self._orig = None
        self.post_handler = None   # (tid, url, body) -> bytes or raises

    # ---- interception
    def install(self):
        s = self
        o_open, o_ioopen, o_replace, o_rename = builtins.open, io.open, os.replace, os.rename

        def in_root(p):
            try:
                return os.path.realpath(os.fspath(p)).startswith(s.root)
            except TypeError:
                return False

        def my_open(file, mode="r", *a, **k):
            if getattr(s.local, "tid", None) is not None and not isinstance(file, int) and in_root(file):
                path = os.path.realpath(os.fspath(file))
                if "w" in mode or "a" in mode or "x" in mode or "+" in mode:
                    s.at("open-w", path)
                    if "b" not in mode:
                        raise RuntimeError("unmodelled: text-mode write to the cache")
                    return _Writer(s, path)
                s.at("read", path)
            return o_open(file, mode, *a, **k)

        def my_replace(src, dst, *a, **k):
            if getattr(s.local, "tid", None) is not None and in_root(dst):
                s.at("replace", os.path.realpath(os.fspath(dst)))
            return o_replace(src, dst, *a, **k)

        def my_rename(src, dst, *a, **k):
            if getattr(s.local, "tid", None) is not None and in_root(dst):
                s.at("replace", os.path.realpath(os.fspath(dst)))
            return o_rename(src, dst, *a, **k)
        self._orig = (o_open, o_ioopen, o_replace, o_rename)
        builtins.open = my_open
        io.open = my_open
        os.replace = my_replace
        os.rename = my_rename

    def uninstall(self):
        if self._orig:
            builtins.open, io.open, os.replace, os.rename = self._orig
            self._orig = None

    # ---- called inside worker threads
    def at(self, op, path=""):
        tid = self.local.tid
        with self.cv:
            st = self.state[tid]
            st["pending"] = (op, path)
            st["grant"] = None
            self.cv.notify_all()
            while st["grant"] is None:
                self.cv.wait()
            g = st["grant"]
            st["pending"] = None
            st["grant"] = None
        if g == "crash":
            raise Crash()
        self.oplog.append((tid, op, path))

    def post(self, tid, url, body):
        self.at("post", url)
        return self.post_handler(tid, url, body)

    # ---- driver side
    def spawn(self, tid, fn):
        st = {"pending": None, "grant": None, "done": False, "result": None, "exc": None, "crashed": False}
        self.state[tid] = st

        def run():
            self.local.tid = tid
            try:
                st["result"] = fn()
            except Crash:
                st["crashed"] = True
            except BaseException as e:       # noqa - the call failed
                st["exc"] = e
            finally:
                with self.cv:
                    st["done"] = True
                    st["pending"] = None
                    self.cv.notify_all()
        t = threading.Thread(target=run, daemon=True)
        st["thread"] = t
        t.start()
        self.wait(tid)

    def wait(self, tid):
        """until thread tid is parked at a yield point or finished"""
        with self.cv:
            st = self.state[tid]
            while not st["done"] and st["pending"] is None:
                if not self.cv.wait(timeout=20):
                    raise RuntimeError("scheduler: thread %s neither yields nor ends" % tid)

    def pending(self, tid):
        st = self.state[tid]
        return None if st["done"] else st["pending"]

    def step(self, tid, crash=False):
        """release thread tid for one operation (or crash it there); returns the op performed"""
        with self.cv:
            st = self.state[tid]
            if st["done"] or st["pending"] is None:
                return None
            op = st["pending"]
            st["grant"] = "crash" if crash else "go"
            st["pending"] = None
            self.cv.notify_all()
        self.wait(tid)
        return op

    def finish(self, tid):
        ops = []
        while self.pending(tid) is not None:
            ops.append(self.step(tid))
        return ops

    def outcome(self, tid):
        st = self.state[tid]
        return st


DT_RE = re.compile(rb"<DTPROFUP>(\d{8})")


def asked_dt(body):
    m = DT_RE.search(body)
    if not m:
        return -1
    d = m.group(1).decode()
    if d.startswith("1990"):
        return 0
    if d.startswith("202001"):
        return int(d[6:8])
    return -1


class Server:
    """a fake FI: dt counter and the set of profiles it has sent (bytes -> dt)"""

    def __init__(self, name, mins, ofx_server, url=None):
        self.name = name
        self.mins = mins
        self.os = ofx_server
        self.url = url or "https://%s.invalid/ofx" % name
        self.dt = 1
        self.sent = {}

    def profile_bytes(self, dt):
        b = self.os.profile(self.mins, self.url, dtprofup="202001%02d000000.000[+0:UTC]" % dt).encode()
        self.sent[b] = dt
        return b

    def answer(self, kind):
        if kind == "newer":
            return self.profile_bytes(self.dt)
        if kind == "bumpnewer":
            self.dt += 1
            return self.profile_bytes(self.dt)
        if kind == "older":
            return self.profile_bytes(max(self.dt - 1, 1))
        if kind == "uptodate":
            return self.os.profile(self.mins, self.url, status="1", with_profrs=False).encode()
        if kind == "error":
            return self.os.profile(self.mins, self.url, status="2000", with_profrs=False).encode()
        if kind == "invalid":
            # a well-formed answer with status 0 and a newer DTPROFUP whose PROFRS is invalid elsewhere
            # (required COUNTRY missing / over-long STATE / CITY and STATE out of order)
            self.ninvalid = getattr(self, "ninvalid", 0) + 1
            good = self.os.profile(self.mins, self.url, dtprofup="202001%02d000000.000[+0:UTC]" % min(self.dt + 1, 28))
            how = self.ninvalid % 3
            if how == 0:
                bad = re.sub(r"<COUNTRY>[^<]*</COUNTRY>", "", good, count=1)
            elif how == 1:
                bad = re.sub(r"<STATE>[^<]*</STATE>", "<STATE>ABCDEFGHIJ</STATE>", good, count=1)
            else:
                bad = re.sub(r"(<CITY>[^<]*</CITY>)(<STATE>[^<]*</STATE>)", r"\2\1", good, count=1)
            if bad == good:
                raise RuntimeError("pc_sched: could not make the profile invalid")
            return bad.encode()
        if kind == "garbage":
            return b"<html><body>Service unavailable</body></html>"
        if kind == "neterr":
            raise urllib.error.URLError("connection refused")
        raise ValueError(kind)


def classify(path, servers):
    """abstract content of a cache file"""
    if not os.path.exists(path):
        return {"k": "absent", "srv": "", "dt": 0}
    with io.open(path, "rb") as f:
        data = f.read()
    for s in servers:
        if data in s.sent:
            return {"k": "whole", "srv": s.name, "dt": s.sent[data]}
    return {"k": "corrupt", "srv": "", "dt": len(data)}
