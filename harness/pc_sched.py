"""Step scheduler at the I/O boundary of OFXClient.request_profile (no repository hooks).

Every operation the call performs on the cache directory (open for reading, open for writing,
each write, close, rename/replace) and the network exchange goes through a wrapper installed
from outside (builtins.open / io.open / os.replace / os.rename / OFXClient.post_request).  Each
wrapper is a YIELD POINT: the calling thread parks until the driver releases it.  A crash is
delivered at a yield point: the thread unwinds with a BaseException and the proxy file object
closes its descriptor without writing anything more (nothing is buffered: writes go straight to
os.write, in two halves, so a torn write is observable)."""
import builtins
import io
import os
import re
import threading
import urllib.error


class Crash(BaseException):
    pass


class _Writer:
    """unbuffered writer whose write()/close() are yield points"""

    def __init__(self, sched, path):
        self.sched = sched
        self.path = path
        self.fd = os.open(path, os.O_WRONLY | os.O_CREAT | os.O_TRUNC, 0o644)

    def write(self, data):
        data = bytes(data)
        half = max(1, len(data) // 2)
        for part in (data[:half], data[half:]):
            if part:
                self.sched.at("write", self.path)
                os.write(self.fd, part)
        return len(data)

    def close(self):
        if self.fd is not None:
            try:
                self.sched.at("close", self.path)
            finally:
                os.close(self.fd)
                self.fd = None

    def __enter__(self):
        return self

    def __exit__(self, et, ev, tb):
        if et is not None and issubclass(et, Crash):
            if self.fd is not None:
                os.close(self.fd)
                self.fd = None
            return False
        self.close()
        return False


class _TextWriter(_Writer):
    """the same for a file opened in text mode"""

    def __init__(self, sched, path, encoding):
        super().__init__(sched, path)
        self.encoding = encoding

    def write(self, text):
        super().write(text.encode(self.encoding))
        return len(text)


class Sched:
    """one scheduler per scenario; threads register themselves through thread-local state"""

    def __init__(self, root):
        self.root = os.path.realpath(str(root))
        self.cv = threading.Condition()
        self.local = threading.local()
        self.state = {}       # tid -> dict(pending=(op, path) | None, grant=None|'go'|'crash', done=bool, result=...)
        self.oplog = []       # (tid, op, path)
        self._orig = None
        self.post_handler = None   # (tid, url, body) -> bytes or raises

    # ---- interception
    def install(self):
        s = self
        o_open, o_ioopen, o_replace, o_rename = builtins.open, io.open, os.replace, os.rename

        def in_root(p):
            try:
                return os.path.realpath(os.fspath(p)).startswith(s.root)
            except TypeError:
                return False

        def my_open(file, mode="r", *a, **k):
            if getattr(s.local, "tid", None) is not None and not isinstance(file, int) and in_root(file):
                path = os.path.realpath(os.fspath(file))
                if "w" in mode or "a" in mode or "x" in mode or "+" in mode:
                    s.at("open-w", path)
                    if "b" not in mode:
                        return _TextWriter(s, path, k.get("encoding") or (a[1] if len(a) > 1 else None) or "utf-8")
                    return _Writer(s, path)
                s.at("read", path)
            return o_open(file, mode, *a, **k)

        def my_replace(src, dst, *a, **k):
            if getattr(s.local, "tid", None) is not None and in_root(dst):
                s.at("replace", os.path.realpath(os.fspath(dst)))
            return o_replace(src, dst, *a, **k)

        def my_rename(src, dst, *a, **k):
            if getattr(s.local, "tid", None) is not None and in_root(dst):
                s.at("replace", os.path.realpath(os.fspath(dst)))
            return o_rename(src, dst, *a, **k)
        self._orig = (o_open, o_ioopen, o_replace, o_rename)
        builtins.open = my_open
        io.open = my_open
        os.replace = my_replace
        os.rename = my_rename

    def uninstall(self):
        if self._orig:
            builtins.open, io.open, os.replace, os.rename = self._orig
            self._orig = None

    # ---- called inside worker threads
    def at(self, op, path=""):
        tid = self.local.tid
        with self.cv:
            st = self.state[tid]
            st["pending"] = (op, path)
            st["grant"] = None
            self.cv.notify_all()
            while st["grant"] is None:
                self.cv.wait()
            g = st["grant"]
            st["pending"] = None
            st["grant"] = None
        if g == "crash":
            raise Crash()
        self.oplog.append((tid, op, path))

    def post(self, tid, url, body):
        self.at("post", url)
        return self.post_handler(tid, url, body)

    # ---- driver side
    def spawn(self, tid, fn):
        st = {"pending": None, "grant": None, "done": False, "result": None, "exc": None, "crashed": False}
        self.state[tid] = st

        def run():
            self.local.tid = tid
            try:
                st["result"] = fn()
            except Crash:
                st["crashed"] = True
            except BaseException as e:       # noqa - the call failed
                st["exc"] = e
            finally:
                with self.cv:
                    st["done"] = True
                    st["pending"] = None
                    self.cv.notify_all()
        t = threading.Thread(target=run, daemon=True)
        st["thread"] = t
        t.start()
        self.wait(tid)

    def wait(self, tid):
        """until thread tid is parked at a yield point or finished"""
        with self.cv:
            st = self.state[tid]
            while not st["done"] and st["pending"] is None:
                if not self.cv.wait(timeout=20):
                    raise RuntimeError("scheduler: thread %s neither yields nor ends" % tid)

    def pending(self, tid):
        st = self.state[tid]
        return None if st["done"] else st["pending"]

    def step(self, tid, crash=False):
        """release thread tid for one operation (or crash it there); returns the op performed"""
        with self.cv:
            st = self.state[tid]
            if st["done"] or st["pending"] is None:
                return None
            op = st["pending"]
            st["grant"] = "crash" if crash else "go"
            st["pending"] = None
            self.cv.notify_all()
        self.wait(tid)
        return op

    def finish(self, tid):
        ops = []
        while self.pending(tid) is not None:
            ops.append(self.step(tid))
        return ops

    def outcome(self, tid):
        st = self.state[tid]
        return st


DT_RE = re.compile(rb"<DTPROFUP>(\d{8})(\d{6})?(?:\.(\d{3}))?(?:\[([+-]?\d{1,2})(?:\.(\d{2}))?(?::[^\]]*)?\])?")


def asked_dt(body):
    """the profile date a request names, as the index k of the profile dated 2020-01-k 00:00:00 UTC (0 = the epoch of
    "no profile held", -1 = anything else): the INSTANT counts, whatever zone it is written in"""
    import datetime
    m = DT_RE.search(body)
    if not m:
        return -1
    d, t, ms, oh, om = (x.decode() if x else None for x in m.groups())
    t = t or "000000"
    try:
        local = datetime.datetime(int(d[:4]), int(d[4:6]), int(d[6:8]), int(t[:2]), int(t[2:4]), int(t[4:6]), int(ms or 0) * 1000)
    except ValueError:
        return -1
    off = 0
    if oh is not None:
        sign = -1 if oh.startswith("-") else 1
        off = sign * (abs(int(oh)) * 60 + int(om or 0))
    utc = local - datetime.timedelta(minutes=off)
    if utc.year == 1990:
        return 0
    if (utc.year, utc.month) == (2020, 1) and (utc.hour, utc.minute, utc.second, utc.microsecond) == (0, 0, 0, 0):
        return utc.day
    return -1


# the zone a server writes its profile date in (the instant is 2020-01-k 00:00:00 UTC in every case)
ZONES = {"s1": (540, "JST"), "s2": (-300, "EST"), "s3": (330, "IST"), "s4": (0, "UTC"), "s5": (-210, "NST")}


def dtprofup_text(name, k):
    import datetime
    off, zn = ZONES.get(name, (0, "UTC"))
    local = datetime.datetime(2020, 1, k) + datetime.timedelta(minutes=off)
    a = abs(off)
    return "%s.000[%s%d%s:%s]" % (local.strftime("%Y%m%d%H%M%S"), "-" if off < 0 else "+", a // 60, (".%02d" % (a % 60)) if a % 60 else "", zn)


class Server:
    """a fake FI: dt counter and the set of profiles it has sent (bytes -> dt)"""

    def __init__(self, name, mins, ofx_server, url=None):
        self.name = name
        self.mins = mins
        self.os = ofx_server
        self.url = url or "https://%s.invalid/ofx" % name
        self.dt = 1
        self.sent = {}

    def profile_bytes(self, dt):
        # (later profiles are SHORTER than earlier ones: what an interrupted write left behind is longer than the next file)
        b = self.os.profile(self.mins, self.url, dtprofup=dtprofup_text(self.name, dt), finame="F" * max(1, 32 - 2 * min(dt, 14))).encode()
        self.sent[b] = dt
        return b

    def answer(self, kind):
        if kind == "newer":
            return self.profile_bytes(self.dt)
        if kind == "bumpnewer":
            self.dt += 1
            return self.profile_bytes(self.dt)
        if kind == "older":
            return self.profile_bytes(max(self.dt - 1, 1))
        if kind == "uptodate":
            return self.os.profile(self.mins, self.url, status="1", with_profrs=False).encode()
        if kind == "error":
            return self.os.profile(self.mins, self.url, status="2000", with_profrs=False).encode()
        if kind == "invalid":
            # a well-formed answer with status 0 and a newer DTPROFUP whose PROFRS is invalid elsewhere
            # (required COUNTRY missing / over-long STATE / CITY and STATE out of order)
            self.ninvalid = getattr(self, "ninvalid", 0) + 1
            good = self.os.profile(self.mins, self.url, dtprofup=dtprofup_text(self.name, min(self.dt + 1, 28)))
            how = self.ninvalid % 3
            if how == 0:
                bad = re.sub(r"<COUNTRY>[^<]*</COUNTRY>", "", good, count=1)
            elif how == 1:
                bad = re.sub(r"<STATE>[^<]*</STATE>", "<STATE>ABCDEFGHIJ</STATE>", good, count=1)
            else:
                bad = re.sub(r"(<CITY>[^<]*</CITY>)(<STATE>[^<]*</STATE>)", r"\2\1", good, count=1)
            if bad == good:
                raise RuntimeError("pc_sched: could not make the profile invalid")
            return bad.encode()
        if kind == "garbage":
            return b"<html><body>Service unavailable</body></html>"
        if kind == "neterr":
            raise urllib.error.URLError("connection refused")
        raise ValueError(kind)


def classify(path, servers):
    """abstract content of a cache file"""
    if not os.path.exists(path):
        return {"k": "absent", "srv": "", "dt": 0}
    with io.open(path, "rb") as f:
        data = f.read()
    for s in servers:
        if data in s.sent:
            return {"k": "whole", "srv": s.name, "dt": s.sent[data]}
    return {"k": "corrupt", "srv": "", "dt": len(data)}
