"""C08 - improperly nested or truncated markup is never silently accepted as a tree.

M: MC_Syntax Sound over ALL token streams up to MaxLen: whatever the tree builder accepts is a
   document of the grammar (properly nested, closed, single root).
G: every emitted stream - valid or not - in three layouts through the real TreeBuilder.
T: valid bodies (random trees, real serialized requests) x every token-boundary truncation, byte
   truncations, every single end-tag deletion / renaming / transposition / duplication, stray text
   after an end tag, stray end tags, a second root; the expected verdict is the specification
   parser's verdict on the mutated text (Trace_Syntax) - deleting a data element's end tag is legal.
"""
import random
import re

import syn_common as sc
from core import uncps, MachineryError

CFG = "SPECIFICATION Spec\nCONSTANT MaxLen = %d\n%s\nCONSTRAINT Emit\n"
TOK = re.compile(r"<!\[CDATA\[.*?\]\]>|<[^>]*>|[^<]+", re.S)


def faults(rnd, text, quick):
    """single faults of a valid body: (kind, mutated text)"""
    toks = TOK.findall(text)
    out = []
    pos = 0
    bounds = []
    for t in toks:
        pos += len(t)
        bounds.append(pos)
    # truncation at every token boundary (except the full text) and at some byte positions
    for b in bounds[:-1]:
        out.append(("trunc-token", text[:b]))
    nbytes = 6 if quick else 30
    for b in sorted(set(rnd.randrange(1, len(text)) for _ in range(nbytes))):
        out.append(("trunc-byte", text[:b]))
    for b in range(max(1, len(text) - 4), len(text)):
        out.append(("trunc-tail", text[:b]))
    ends = [i for i, t in enumerate(toks) if t.startswith("</")]
    starts = [i for i, t in enumerate(toks) if t.startswith("<") and not t.startswith("</") and not t.startswith("<!")]
    j = lambda ts: "".join(ts)
    for i in ends:
        out.append(("del-end", j(toks[:i] + toks[i + 1:])))
        out.append(("rename-end", j(toks[:i] + ["</ZZ9>"] + toks[i + 1:])))
        nm = toks[i][2:-1]
        near = {"suffix": nm[1:], "last-char": nm[-1:], "prefix": nm[:-1], "extended-left": "X" + nm, "extended-right": nm + "X",
                "case": nm.swapcase()}
        prev = [toks[k][1:-1] for k in starts if k < i]
        if prev:
            near["last-started"] = prev[-1]
            near["first-started"] = prev[0]
        for how, nn in near.items():
            if nn and nn != nm:
                out.append(("rename-end-" + how, j(toks[:i] + ["</" + nn + ">"] + toks[i + 1:])))
        out.append(("dup-end", j(toks[:i] + [toks[i], toks[i]] + toks[i + 1:])))
        out.append(("text-after-end", j(toks[:i + 1] + ["junk"] + toks[i + 1:])))
        others = [k for k in ends if toks[k] != toks[i]]
        if others:
            k = rnd.choice(others)
            t2 = list(toks)
            t2[i], t2[k] = t2[k], t2[i]
            out.append(("swap-ends", j(t2)))
            out.append(("foreign-end", j(toks[:i] + [toks[k]] + toks[i + 1:])))
    for i in rnd.sample(range(len(toks) + 1), min(len(toks) + 1, 4 if quick else 12)):
        out.append(("stray-end", j(toks[:i] + ["</Q>"] + toks[i:])))
    out.append(("second-root", text + "<R2>x</R2>"))
    out.append(("second-root-agg", text + "<R2></R2>"))
    out.append(("second-root-copy", text + text))
    for i in rnd.sample(starts, min(len(starts), 3 if quick else 10)):
        out.append(("del-start", j(toks[:i] + toks[i + 1:])))
    return out


def real_bodies():
    """bodies the library itself serialises"""
    import datetime
    from ofxtools.Client import OFXClient, StmtRq, CcStmtRq, InvStmtRq, StmtEndRq
    from ofxtools.utils import UTC
    bodies = []
    for ver, close, pretty in ((102, True, False), (103, False, False), (160, True, True), (203, True, False), (220, True, True)):
        c = OFXClient("https://example.com/ofx", userid="u&<1>", org="ORG", fid="FID", version=ver, bankid="123",
                      brokerid="b.com", prettyprint=pretty, close_elements=close)
        dt = datetime.datetime(2020, 1, 2, 3, 4, 5, tzinfo=UTC)
        data = c.request_statements("p&w", StmtRq(acctid="1<2", accttype="CHECKING", dtstart=dt),
                                    CcStmtRq(acctid="cc"), InvStmtRq(acctid="inv"), StmtEndRq(acctid="e", accttype="SAVINGS"),
                                    dryrun=True).read().decode()
        body = data[data.index("<OFX>"):].strip()
        bodies.append(body)
    return bodies


def run(ctx):
    quick = ctx.tier == "quick"
    L = 6 if quick else 7
    ctx.rule = ("grid = every token stream of <= L tokens (thinned) x 3 layouts; fault cases = valid bodies (random trees, "
                "library-serialised requests) x every token-boundary truncation, sampled byte truncations, every end-tag "
                "deletion/renaming/duplication/transposition, stray text/end tags, second roots; non-trivial = distinct "
                "(fault kind, mutated text) whose reference verdict is 'reject'")
    r = ctx.tlc("MC_Syntax", CFG % (L, "INVARIANT Sound\nINVARIANT Complete"), env={"EMITMOD": 0}, tag="mc")
    if r.violated:
        raise MachineryError("model-level theorem violated in MC_Syntax: %s" % r.violated)
    g = ctx.tlc("MC_Syntax", CFG % (5 if quick else 6, ""), env={"EMITMOD": 1 if quick else 2}, workers=1, tag="emit")
    evs = []
    n = 0
    for c in g.printed_json("CASE"):
        if c["open"]:
            continue
        for j, t in enumerate(c["texts"][:2 if quick else 3]):
            evs.append(sc.ev_parse("g%dl%d" % (n, j), uncps(t)))
        if not c["ok"]:
            ctx.nontrivial.add(("stream", n))
        n += 1
    ctx.extra["grid_streams_replayed"] = n
    rnd = random.Random(ctx.seed * 49979687 + 8)
    bodies = real_bodies()
    for i in range(60 if quick else 1200):
        t = sc.rand_tree(rnd, [rnd.choice([3, 6, 12, 25])])
        if not t[2]:
            t = ["OFX", "", [t]]
        if sc.same_tag_nesting(t):
            continue
        bodies.append(sc.render(rnd, t, rnd.choice([None, "xml", "sgml"])).strip())
    kinds = {}
    for i, body in enumerate(bodies):
        evs.append(sc.ev_parse("b%d" % i, body))
        for j, (kind, bad) in enumerate(faults(rnd, body, quick)):
            e = sc.ev_parse("b%df%d" % (i, j), bad)
            e["fault"] = kind
            evs.append(e)
            if rnd.random() < 0.12 and bad.strip() == bad and all(ord(c) < 128 for c in bad):
                # the same faulty body as a FILE (version 1 or 2 header) through OFXTree.parse
                e2 = sc.ev_parse("b%df%dt" % (i, j), bad, via=rnd.choice([102, 203, 220]))
                e2["fault"] = kind + " (file)"
                evs.append(e2)
            kinds[kind] = kinds.get(kind, 0) + 1
            ctx.nontrivial.add((kind, bad))
    ctx.extra["fault_kinds"] = kinds
    ctx.evaluations = len(evs)
    for e in evs[-3:]:
        ctx.sample(dict(sc.describe(e), fault=e.get("fault")))
    mism = ctx.validate_trace("Trace_Syntax", evs)
    byid = {e["id"]: e for e in evs}
    for eid, clauses in mism.items():
        e = byid[eid]
        d = sc.describe(e)
        for cl in clauses:
            ctx.fail(dict(d, clause=cl, fault=e.get("fault", "stream"),
                          what="%s [%s]: text=%r out=%s" % (cl, e.get("fault", "stream"), d["text"][:300], str(d["out"])[:200])))
