"""Whole-file pipeline on the real code: model instance -> OFXClient.serialize (every wire form)
-> OFXTree.parse -> convert, recorded for Trace_File."""
import datetime
import io
import warnings

import doc_common as dc
import types_common as tc

V1 = [102, 103, 151, 160]
V2 = [200, 201, 202, 203, 210, 211, 220]
FORMS = [("xml", False), ("xml", True), ("sgml-closed", False), ("sgml-closed", True),
         ("sgml-unclosed", False), ("sgml-unclosed", True)]


def project_inst_ms(inst, schema):
    """projection with date-times as instants rounded to the millisecond (what C01 compares)"""
    from ofxtools.models.base import Aggregate

    def pv(v):
        if isinstance(v, datetime.datetime) and v.utcoffset() is not None:
            try:
                u = v.astimezone(datetime.timezone.utc) + datetime.timedelta(microseconds=500)
            except OverflowError:
                return tc.project(v)          # the very end of year 9999: no rounding possible
            u = u.replace(microsecond=u.microsecond // 1000 * 1000)
            return tc.project(u)
        if isinstance(v, datetime.time) and v.utcoffset() is not None:
            d = datetime.datetime(1999, 6, 8, v.hour, v.minute, v.second, v.microsecond, tzinfo=v.tzinfo)
            u = d.astimezone(datetime.timezone.utc) + datetime.timedelta(microseconds=500)
            return tc.project(u.time().replace(microsecond=u.microsecond // 1000 * 1000, tzinfo=datetime.timezone.utc))
        return tc.project(v)
    cls = type(inst).__name__
    els = []
    for a in schema[cls]["attrs"]:
        if a["k"] in ("elem", "sub"):
            v = getattr(inst, a["a"])
            if v is None:
                continue
            els.append([a["a"], project_inst_ms(v, schema) if isinstance(v, Aggregate) else pv(v)])
    mem = [project_inst_ms(m, schema) if isinstance(m, Aggregate) else pv(m) for m in inst]
    return {"cls": cls, "els": els, "mem": mem}


EMPTY = {"cls": "", "els": [], "mem": []}


def ev_file(eid, inst, schema, form, pretty, version, refusable=False, adversarial=False, label=""):
    """serialize `inst` in one wire form and read it back with the library"""
    from ofxtools.Client import OFXClient
    from ofxtools.Parser import OFXTree
    close = form != "sgml-unclosed"
    orig = project_inst_ms(inst, schema)
    fname = "%s%s/%d" % (form, "+pretty" if pretty else "", version)
    ev = {"id": eid, "op": "file", "form": fname, "kind": 1 if version < 200 else 2, "version": version,
          "orig": orig, "refusable": refusable, "adversarial": adversarial, "label": label,
          "wrote": False, "file": [], "back": {"ok": False, "inst": EMPTY, "exc": ""}}
    client = OFXClient("https://example.invalid/", version=version, prettyprint=pretty, close_elements=close)
    with warnings.catch_warnings():
        warnings.simplefilter("ignore")
        try:
            data = client.serialize(inst, oldfileuid="NONE", newfileuid="a-b_c")
        except Exception as e:
            ev["exc"] = type(e).__name__ + ": " + str(e)[:100]
            return ev
        ev["wrote"] = True
        ev["file"] = list(data)
        try:
            p = OFXTree()
            p.parse(io.BytesIO(data))
            back = p.convert()
            ev["back"] = {"ok": True, "inst": project_inst_ms(back, schema), "exc": ""}
        except Exception as e:
            ev["back"] = {"ok": False, "inst": EMPTY, "exc": type(e).__name__ + ": " + str(e)[:100]}
    return ev


def has_empty_aggregate(p):
    if not p["els"] and not p["mem"]:
        return True
    for _, v in p["els"]:
        if isinstance(v, dict) and "cls" in v and has_empty_aggregate(v):
            return True
    return any(isinstance(m, dict) and "cls" in m and has_empty_aggregate(m) for m in p["mem"])


def classes_in(p, acc=None):
    acc = set() if acc is None else acc
    acc.add(p["cls"])
    for _, v in p["els"]:
        if isinstance(v, dict) and "cls" in v:
            classes_in(v, acc)
    for m in p["mem"]:
        if isinstance(m, dict) and "cls" in m:
            classes_in(m, acc)
    return acc


def judge(ctx, evs):
    mism = ctx.validate_trace("Trace_File", evs)
    byid = {e["id"]: e for e in evs}
    for eid, clauses in mism.items():
        e = byid[eid]
        data = bytes(e["file"]).decode("utf8", "replace")
        cl_in = sorted(classes_in(e["orig"]))
        for cl in clauses:
            form = e["form"].split("/")[0]
            ctx.fail({"clause": cl.split(" form=")[0], "detail": cl, "form": form, "version": e["version"],
                      "root": e["orig"]["cls"], "label": e["label"], "classes": cl_in,
                      "has_empty_aggregate": has_empty_aggregate(e["orig"]),
                      "unclosed_with_empty_aggregate": form.startswith("sgml-unclosed") and has_empty_aggregate(e["orig"]),
                      "file": data[:1500], "back_exc": e["back"]["exc"], "write_exc": e.get("exc", ""),
                      "what": "%s root=%s file=%r back=%s %s" % (cl, e["orig"]["cls"], data[-400:], e["back"]["exc"], e.get("exc", ""))})
    return mism
