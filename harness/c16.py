"""C16 - shortcuts and flat attribute access agree with the full path; misses are clean.

M: OFXAccess: Lookup (depth-first through present, non-repeated sub-aggregates in declaration
   order) and the shortcut table as paths over abstract instances.
G: TLC-simulated valid instances of all classes (plus statement-bearing OFX trees built by the
   harness from minimal documents) x every name declared anywhere below them x undefined names
   (incl. dunder names) x every documented shortcut.
T: every getattr / hasattr / getattr-with-default / shortcut / copy / deepcopy / pickle outcome is
   recorded - aggregates by the PATH of the very object returned (identity) - and judged by TLC.
"""
import copy
import pickle
import random

import doc_common as dc
import export_schema
import gen_common as gc
import types_common as tc

SHORTCUTS = ["statements", "securities", "signon", "account", "transactions", "balance", "balances", "positions",
             "statement", "profile", "org", "fid", "curtype", "cursym", "currate"]
UNDEFINED = ["zzundefined", "__deepcopy__", "__setstate__", "__getstate_ex__", "_private", "STMTRS", "trnuidx"]


def index_paths(inst, path, table):
    """id(object) -> path for every aggregate in the instance tree"""
    from ofxtools.models.base import Aggregate
    table[id(inst)] = path
    for k, v in inst.__dict__.items():
        if isinstance(v, Aggregate):
            index_paths(v, path + [["e", k]], table)
    for i, m in enumerate(inst):
        if isinstance(m, Aggregate):
            index_paths(m, path + [["m", str(i + 1)]], table)


def outcome(fn, table):
    from ofxtools.models.base import Aggregate
    try:
        v = fn()
    except AttributeError:
        return {"k": "attrerror"}
    except Exception as e:
        return {"k": "exception", "exc": type(e).__name__}
    if v is None:
        return {"k": "none"}
    if isinstance(v, Aggregate):
        p = table.get(id(v))
        return {"k": "node", "p": p} if p is not None else {"k": "foreign-object"}
    if isinstance(v, list) and all(isinstance(x, Aggregate) for x in v):
        ps = [table.get(id(x)) for x in v]
        return {"k": "nodes", "ps": ps} if all(p is not None for p in ps) else {"k": "foreign-object"}
    if isinstance(v, str) and fn.__name__ == "curtype":
        return {"k": "text", "s": v}
    return {"k": "value", "v": tc.project(v)}


def all_names(schema):
    return sorted({a["a"] for s in schema.values() for a in s["attrs"]})


def names_below(p, schema, acc):
    for a in schema[p["cls"]]["attrs"]:
        acc.add(a["a"])
    for _, v in p["els"]:
        if isinstance(v, dict) and "cls" in v:
            names_below(v, schema, acc)
    for m in p["mem"]:
        if isinstance(m, dict) and "cls" in m:
            names_below(m, schema, acc)
    return acc


def subinstances(inst, out):
    from ofxtools.models.base import Aggregate
    out.append(inst)
    for v in inst.__dict__.values():
        if isinstance(v, Aggregate):
            subinstances(v, out)
    for m in inst:
        if isinstance(m, Aggregate):
            subinstances(m, out)
    return out


def statement_trees(mins, schema, rnd, n):
    """OFX trees holding several statements / closing statements / securities, from minimal documents"""
    import copy as _c
    out = []
    for _ in range(n):
        rs = rnd.random() < 0.6
        suf = "RSV1" if rs else "RQV1"
        ofx = ["OFX", None, [_c.deepcopy(mins["SIGNONMSGS" + suf])]]
        def wrappers(names):
            out_ = []
            for x in (rnd.choice(names) for _ in range(rnd.randrange(0, 5))):
                w = _c.deepcopy(mins[x])
                child = {"STMTTRNRS": "STMTRS", "STMTENDTRNRS": "STMTENDRS", "CCSTMTTRNRS": "CCSTMTRS", "CCSTMTENDTRNRS": "CCSTMTENDRS",
                         "INVSTMTTRNRS": "INVSTMTRS"}.get(x)
                if child and child not in [k[0] for k in w[2]] and rnd.random() < 0.85:
                    w[2].append(_c.deepcopy(mins[child]))      # the statement is the last child of a response wrapper
                out_.append(w)
            return out_
        t = "TRNRS" if rs else "TRNRQ"
        bank = ["BANKMSGS" + suf, None, wrappers(["STMT" + t, "STMTEND" + t])]
        cc = ["CREDITCARDMSGS" + suf, None, wrappers(["CCSTMT" + t, "CCSTMTEND" + t])]
        inv = ["INVSTMTMSGS" + suf, None, wrappers(["INVSTMT" + t])]
        for m in (bank, cc, inv):
            if m[2] or rnd.random() < 0.3:
                ofx[2].append(m)
        if rs and rnd.random() < 0.7:
            sl = ["SECLISTMSGSRSV1", None, []]
            for _ in range(rnd.randrange(0, 3)):
                if rnd.random() < 0.4:
                    sl[2].append(_c.deepcopy(mins["SECLISTTRNRS"]))      # (transaction wrappers and lists in any order)
                sl[2].append(["SECLIST", None, [_c.deepcopy(mins[rnd.choice(["STOCKINFO", "MFINFO", "DEBTINFO", "OPTINFO", "OTHERINFO"])])
                                                for _ in range(rnd.randrange(0, 3))]])
            if rnd.random() < 0.3:
                sl[2].append(_c.deepcopy(mins["SECLISTTRNRS"]))
            ofx[2].append(sl)
        out.append(dc.from_nested(ofx))
    return out


def run(ctx):
    from ofxtools.models.base import Aggregate
    quick = ctx.tier == "quick"
    schema, types = export_schema.write(ctx)
    mins, _ = dc.mindocs(ctx)
    rnd = random.Random(ctx.seed * 104395301 + 16)
    ctx.rule = ("instances = TLC-simulated valid instances (all classes), every aggregate inside them taken as the receiver, "
                "plus OFX trees with 0-3 statements per message set; names = every attribute name declared below the receiver "
                "+ names declared nowhere below + dunder names; shortcuts = all 15 documented ones on every receiver that has "
                "them; copy/deepcopy/pickle on every receiver; non-trivial = distinct (receiver class, name, outcome kind)")
    docs = [gc.concretise(g, types, rnd, rich=False) for g in gc.simulate_docs(ctx, 400 if quick else 6000, maxtok=45)]
    docs += statement_trees(mins, schema, rnd, 60 if quick else 600)
    docs += [dc.from_nested(mins[c]) for c in sorted(schema)]
    evs = []
    allnames = all_names(schema)
    for doc in docs:
        try:
            root = Aggregate.from_etree(dc.to_etree(doc))
        except Exception as e:
            ctx.fail({"clause": "build", "what": "valid document rejected: %s %r" % (dc.doc_text(doc)[:200], e)})
            continue
        receivers = subinstances(root, [])
        if quick and len(receivers) > 4:
            receivers = [root] + rnd.sample(receivers[1:], 3)
        for inst in receivers:
            proj = dc.project_inst(inst, schema, extra=True)
            table = {}
            index_paths(inst, [], table)
            below = sorted(names_below(proj, schema, set()))
            names = below if not quick else rnd.sample(below, min(len(below), 8))
            others = [n for n in allnames if n not in below]
            names += rnd.sample(others, min(len(others), 3 if quick else 10)) + UNDEFINED
            # shortcut names too: a shortcut of a descendant is reachable by flat access like any other name
            names += SHORTCUTS if not quick else rnd.sample(SHORTCUTS, 5)
            for name in names:
                klass = type(inst)
                cattr = getattr(klass, name, None) if not name.startswith("__") else None
                shadowed = name in dir(list) or isinstance(cattr, property) or callable(cattr)
                def curtype():
                    return getattr(inst, "curtype")
                out = outcome(curtype if name == "curtype" else (lambda: getattr(inst, name)), table)
                try:
                    has = "true" if hasattr(inst, name) else "false"
                except Exception:
                    has = "exception"
                try:
                    d = getattr(inst, name, "default")
                    dflt = "default" if isinstance(d, str) and d == "default" else "other"
                except Exception:
                    dflt = "exception"
                evs.append({"id": "a%d" % len(evs), "op": "getattr", "inst": proj, "name": name, "shadowed": bool(shadowed),
                            "out": out, "hasattr": has, "default": dflt})
                ctx.nontrivial.add((proj["cls"], name, out["k"]))
                if name == "statements":
                    proj = dc.project_inst(inst, schema, extra=True)     # reading statements staples wrapper ids onto them
            for name in SHORTCUTS:
                if isinstance(getattr(type(inst), name, None), property):
                    def curtype():
                        return getattr(inst, name)
                    fn = curtype if name == "curtype" else (lambda: getattr(inst, name))
                    out = outcome(fn, table)
                    after = dc.project_inst(inst, schema, extra=True)
                    evs.append({"id": "s%d" % len(evs), "op": "shortcut", "inst": proj, "name": name, "out": out, "after": after})
                    proj = after
                    ctx.nontrivial.add((proj["cls"], "shortcut " + name, out["k"]))
            if not quick or rnd.random() < 0.4:
                for how, fn in (("copy", copy.copy), ("deepcopy", copy.deepcopy), ("pickle", lambda x: pickle.loads(pickle.dumps(x)))):
                    try:
                        c = fn(inst)
                        o = {"ok": True, "inst": dc.project_inst(c, schema, extra=True), "exc": ""}
                    except Exception as e:
                        o = {"ok": False, "inst": {"cls": "", "els": [], "mem": [], "extra": []}, "exc": type(e).__name__}
                    evs.append({"id": "c%d" % len(evs), "op": "clone", "how": how, "inst": proj, "out": o})
    ctx.evaluations = len(evs)
    import json as _j
    ctx.extra["getattr_events_on_stapled_receivers"] = sum(1 for e in evs if e["op"] == "getattr" and '"extra": [["' in _j.dumps(e["inst"]))
    ctx.extra["statements_shortcut_events_that_stapled"] = sum(1 for e in evs if e["op"] == "shortcut" and e["name"] == "statements"
                                                               and '"extra": [["' in _j.dumps(e["after"]))
    for e in evs[:2] + [x for x in evs if x["op"] == "shortcut"][:2]:
        ctx.sample({"op": e["op"], "class": e["inst"]["cls"], "name": e.get("name", e.get("how")), "out": str(e["out"])[:200]})
    mism = ctx.validate_trace("Trace_Access", evs)
    byid = {e["id"]: e for e in evs}
    for eid, clauses in mism.items():
        e = byid[eid]
        for cl in clauses:
            ctx.fail({"clause": cl.split(" ")[0], "detail": cl, "class": e["inst"]["cls"], "name": e.get("name", e.get("how")),
                      "out": str(e["out"])[:300], "what": "%s -> %s" % (cl, str(e["out"])[:300])})
