"""C06 - a composed request says exactly what the caller asked, in every configuration.

M: MC_Compose: for all request sequences up to 3 over the five kinds x identity subsets x version
   threshold, the reference composition satisfies every clause of OFXCompose, and each single
   deviation (wrapper dropped, two wrappers of a kind swapped, TRNUID repeated, wrong message set,
   CLIENTUID below 1.0.3) falsifies one - the clause set is neither vacuous nor contradictory.
G/T: seeded configurations (all 11 versions x pretty x close_elements x ORG/FID x CLIENTUID x app ids x
   language; credentials and account ids over the printable range incl. & < > and non-ASCII) x request
   mixes of 0..12 over the five statement kinds with dates in any UTC offset and all include flags,
   plus account-info, profile and tax requests, composed with dryrun=True; TLC reads the returned
   bytes itself (header, wire syntax, document machine) and evaluates the clauses.
"""
import datetime
import io
import random

import doc_common as dc
import export_schema
import file_common as fc
import types_common as tc
from core import cps, MachineryError

VERSIONS = [102, 103, 151, 160, 200, 201, 202, 203, 210, 211, 220]
SPECIAL = ["a&b", "<x>", "p&a<ss>word", "é€", "x y", "A-1_2", "0000", "漢字", "q\"uo'te", "a;b&c;d", "]]>"]
ACCTTYPES = ["CHECKING", "SAVINGS", "MONEYMRKT", "CREDITLINE", "CD"]
LANGS = ["ENG", "FRA", "DEU"]


def rstr(rnd, n=12):
    if rnd.random() < 0.4:
        return rnd.choice([x for x in SPECIAL if len(x) < n])
    return "".join(rnd.choice("abcXYZ0189-_.&<> é") for _ in range(rnd.randrange(1, n))).strip() or "x"


def rdt(rnd):
    if rnd.random() < 0.3:
        return None
    off = rnd.choice([0, -300, 330, 840, -720, -30, 60, -210, -570, 345, -150, -719])
    tz = datetime.timezone(datetime.timedelta(minutes=off), rnd.choice(["UTC", "EST", "X"]))
    return datetime.datetime(rnd.choice([1999, 2020, 2024]), rnd.randrange(1, 13), rnd.randrange(1, 29), rnd.randrange(24),
                             rnd.randrange(60), rnd.randrange(60), rnd.choice([0, 0, 123000, 999499, 500]), tzinfo=tz)


def adt(d):
    """abstract instant (rounded to the millisecond as the writer does)"""
    if d is None:
        return {"t": "none"}
    u = d.astimezone(datetime.timezone.utc) + datetime.timedelta(microseconds=500)
    u = u.replace(microsecond=u.microsecond // 1000 * 1000)
    return tc.project(u)


def run(ctx):
    from ofxtools.Client import OFXClient, StmtRq, CcStmtRq, InvStmtRq, StmtEndRq, CcStmtEndRq
    from ofxtools.Parser import OFXTree
    quick = ctx.tier == "quick"
    schema, types = export_schema.write(ctx)
    rnd = random.Random(ctx.seed * 217645177 + 6)
    from core import uncps
    lang_t = next(a for a in schema["SONRQ"]["attrs"] if a["a"] == "language")
    LANGS = [uncps(v) for v in types[int(lang_t["ty"][1:])]["valid"]]
    ctx.rule = ("M: all states of MC_Compose; T: seeded client configurations x request mixes (0..12 requests, five kinds) x "
                "account-info / profile / tax calls, each composed with dryrun=True; non-trivial = distinct (version, pretty, "
                "close_elements, identity subset, multiset of kinds, call)")
    invs = ["ClausesHold", "DropDetected", "ExtraDetected", "SwapDetected", "DupUidDetected", "ClientUidThreshold",
            "WrongMsgSetDetected", "WrongPasswordDetected"]
    r = ctx.tlc("MC_Compose", "SPECIFICATION Spec\nCONSTANT MaxReq = %d\n%s\n" % (2 if quick else 3, "\n".join("INVARIANT " + i for i in invs)),
                tag="mc", timeout=900)
    if r.violated:
        raise MachineryError("model-level theorem violated in MC_Compose: %s" % r.violated)
    evs = []
    N = 700 if quick else 12000
    for i in range(N):
        version = rnd.choice(VERSIONS)
        pretty = rnd.random() < 0.5
        close = True if version >= 200 else rnd.random() < 0.5
        org = rstr(rnd) if rnd.random() < 0.6 else ""
        cfgd = {"version": version, "org": org, "fid": (rstr(rnd) if org and rnd.random() < 0.8 else ""),
                "clientuid": (rstr(rnd, 20) if rnd.random() < 0.5 else ""), "appid": rnd.choice(["QWIN", "a&b", "APP"]),
                "appver": rnd.choice(["2700", "1"]), "language": rnd.choice(["ENG", "ENG", rnd.choice(LANGS)]), "bankid": rstr(rnd, 9),
                "brokerid": rstr(rnd), "userid": rstr(rnd)}
        password = rstr(rnd)
        ev = {"id": "q%d" % i, "op": "compose", "cfg": {k: (v if k == "version" else cps(v)) for k, v in cfgd.items()},
              "password": cps(password), "reqs": [], "years": [], "acctnum": [], "recid": [], "dtacctup": {"t": "none"},
              "wrote": False, "file": [], "exc": "", "back": {"ok": False, "inst": fc.EMPTY, "exc": ""}}
        if version >= 200 and rnd.random() < 0.15:
            ev["call"] = "refuse"
            try:
                if rnd.random() < 0.7:
                    c = OFXClient("https://x.invalid/", userid=cfgd["userid"], version=version, close_elements=False, bankid="123")
                    data_ = c.request_statements(password, StmtRq(acctid="1", accttype="CHECKING"), dryrun=True).read()
                else:
                    # the per-request override of a version 1 client
                    c = OFXClient("https://x.invalid/", userid=cfgd["userid"], version=102, bankid="123")
                    data_ = c.request_profile(version=version, close_elements=False, dryrun=True).read()
                ev["wrote"] = True
                ev["file"] = list(data_)
            except Exception as e:
                ev["exc"] = type(e).__name__
            evs.append(ev)
            continue
        client = OFXClient("https://x.invalid/", userid=cfgd["userid"], clientuid=cfgd["clientuid"] or None, org=org or None,
                           fid=cfgd["fid"] or None, version=version, appid=cfgd["appid"], appver=cfgd["appver"],
                           language=cfgd["language"], prettyprint=pretty, close_elements=close, bankid=cfgd["bankid"],
                           brokerid=cfgd["brokerid"])
        call = rnd.choice(["statements"] * 6 + ["accounts", "profile", "tax"])
        ev["call"] = call
        try:
            if call == "statements":
                reqs = []
                pyreqs = []
                for _ in range(rnd.choice([0, 1, 1, 2, 3, 5, 8, 12])):
                    k = rnd.choice(["stmt", "stmtend", "ccstmt", "ccstmtend", "invstmt"])
                    a = {"kind": k, "acctid": rstr(rnd), "accttype": rnd.choice(ACCTTYPES), "dtstart": rdt(rnd), "dtend": rdt(rnd),
                         "dtasof": rdt(rnd), "inctran": rnd.random() < 0.7, "incoo": rnd.random() < 0.5,
                         "incpos": rnd.random() < 0.5, "incbal": rnd.random() < 0.5}
                    if k == "stmt":
                        pyreqs.append(StmtRq(acctid=a["acctid"], accttype=a["accttype"], dtstart=a["dtstart"], dtend=a["dtend"], inctran=a["inctran"]))
                    elif k == "stmtend":
                        pyreqs.append(StmtEndRq(acctid=a["acctid"], accttype=a["accttype"], dtstart=a["dtstart"], dtend=a["dtend"]))
                    elif k == "ccstmt":
                        pyreqs.append(CcStmtRq(acctid=a["acctid"], dtstart=a["dtstart"], dtend=a["dtend"], inctran=a["inctran"]))
                    elif k == "ccstmtend":
                        pyreqs.append(CcStmtEndRq(acctid=a["acctid"], dtstart=a["dtstart"], dtend=a["dtend"]))
                    else:
                        pyreqs.append(InvStmtRq(acctid=a["acctid"], dtstart=a["dtstart"], dtend=a["dtend"], dtasof=a["dtasof"],
                                                inctran=a["inctran"], incoo=a["incoo"], incpos=a["incpos"], incbal=a["incbal"]))
                    reqs.append({"kind": k, "acctid": cps(a["acctid"]), "accttype": cps(a["accttype"]), "dtstart": adt(a["dtstart"]),
                                 "dtend": adt(a["dtend"]), "dtasof": adt(a["dtasof"]), "inctran": a["inctran"], "incoo": a["incoo"],
                                 "incpos": a["incpos"], "incbal": a["incbal"]})
                if reqs and rnd.random() < 0.3:
                    # the same request twice in one call (a multiset), possibly with the same instants in another zone
                    j = rnd.randrange(len(reqs))
                    dup = pyreqs[j]
                    if rnd.random() < 0.5 and getattr(dup, "dtstart", None) is not None:
                        dup = dup._replace(dtstart=dup.dtstart.astimezone(datetime.timezone(datetime.timedelta(minutes=120), "ZZ")))
                    pos = rnd.randrange(len(reqs) + 1)
                    pyreqs.insert(pos, dup)
                    reqs.insert(pos, dict(reqs[j]))
                ev["reqs"] = reqs
                data = client.request_statements(password, *pyreqs, dryrun=True, gen_newfileuid=rnd.random() < 0.5).read()
                ctx.nontrivial.add((version, pretty, close, bool(org), bool(cfgd["clientuid"]), tuple(sorted(x["kind"] for x in reqs))))
            elif call == "accounts":
                d = rdt(rnd) or datetime.datetime(1990, 1, 1, tzinfo=datetime.timezone.utc)
                ev["dtacctup"] = adt(d)
                data = client.request_accounts(password, d, dryrun=True).read()
                ctx.nontrivial.add((version, pretty, close, bool(org), call))
            elif call == "profile":
                data = client.request_profile(dryrun=True).read()
                ctx.nontrivial.add((version, pretty, close, bool(org), call))
            else:
                years = [str(rnd.randrange(1990, 2030)) for _ in range(rnd.randrange(1, 4))]
                acctnum = rstr(rnd) if rnd.random() < 0.6 else ""
                recid = rstr(rnd) if rnd.random() < 0.6 else ""
                ev["years"] = [tc.project(int(y)) for y in years]
                ev["acctnum"] = cps(acctnum)
                ev["recid"] = cps(recid)
                data = client.request_tax1099(password, *years, acctnum=acctnum or None, recid=recid or None, dryrun=True).read()
                ctx.nontrivial.add((version, pretty, close, bool(org), call, bool(acctnum), bool(recid)))
            ev["wrote"] = True
            ev["file"] = list(data)
            try:
                p = OFXTree()
                p.parse(io.BytesIO(data))
                ev["back"] = {"ok": True, "inst": dc.project_inst(p.convert(), schema), "exc": ""}
            except Exception as e:
                ev["back"] = {"ok": False, "inst": fc.EMPTY, "exc": type(e).__name__}
        except Exception as e:
            ev["exc"] = type(e).__name__ + ": " + str(e)[:80]
        evs.append(ev)
    ctx.evaluations = len(evs)
    for e in evs[:2]:
        ctx.sample({"call": e["call"], "version": e["cfg"]["version"], "nreqs": len(e["reqs"]),
                    "file": bytes(e["file"]).decode("utf8", "replace")[:600]})
    mism = ctx.validate_trace("Trace_Compose", evs)
    byid = {e["id"]: e for e in evs}
    for eid, clauses in mism.items():
        e = byid[eid]
        for cl in clauses:
            ctx.fail({"clause": cl.split(" ")[0], "detail": cl, "call": e["call"], "version": e["cfg"]["version"],
                      "kinds": [r["kind"] for r in e["reqs"]], "file": bytes(e["file"]).decode("utf8", "replace")[:2000],
                      "what": "%s call=%s version=%s file=%r %s" % (cl, e["call"], e["cfg"]["version"],
                                                                    bytes(e["file"]).decode("utf8", "replace")[-500:], e["exc"])})
