"""C15, crash points at the REAL system-call boundary: request_profile runs in a child interpreter under strace, which
delivers SIGKILL on entering the N-th mkdir / openat / write / close / rename of the call (calibrated from one
untouched run of the same scenario).  After the kill a fresh interpreter looks at the cache and asks again.

    child mode:   c15_kill.py child <repo> <datadir> <answerfile> <resultfile>
"""
import json
import os
import re
import subprocess
import sys

MARK_BEGIN = "/verif-c15-marker-begin"
MARK_END = "/verif-c15-marker-end"
TRACED = "%file,%desc"       # every system call that takes a file name or a descriptor
# calls that can change what the cache directory holds (descriptor calls count when the descriptor was opened for writing there)
KILLABLE = ("mkdir", "mkdirat", "openat", "open", "creat", "write", "pwrite64", "writev", "sendfile", "copy_file_range", "ftruncate",
            "truncate", "close", "rename", "renameat", "renameat2", "link", "linkat", "unlink", "unlinkat", "fsync", "fdatasync",
            "fchmod", "fchmodat", "chmod", "utimensat", "fallocate")
FD_CALLS = ("write", "pwrite64", "writev", "ftruncate", "close", "fsync", "fdatasync", "fchmod", "fallocate")
LINE = re.compile(r"^(\d+)\s+(\w+)\((.*)$")


def child():
    repo, datadir, answerfile, resultfile = sys.argv[2:6]
    sys.path.insert(0, repo)
    os.environ["XDG_DATA_HOME"] = datadir
    os.environ["XDG_CONFIG_HOME"] = datadir + "-cfg"
    os.environ["XDG_CACHE_HOME"] = datadir + "-cache"
    import logging
    logging.disable(logging.CRITICAL)
    from pathlib import Path
    import ofxtools.config as config
    config.DATADIR = Path(datadir) / "ofxtools"
    from ofxtools.Client import OFXClient
    answer = open(answerfile, "rb").read()
    posted = []

    def post_request(self, url, data, timeout):
        posted.append(data)
        return answer
    OFXClient.post_request = post_request
    c = OFXClient("https://k.invalid/ofx", org="KORG", fid="K1", version=203)
    res = {"ok": False, "exc": "", "ret": "", "asked": ""}
    for p in (MARK_BEGIN,):
        try:
            os.stat(p)
        except OSError:
            pass
    try:
        r = c.request_profile()
        res["ok"] = True
        res["ret"] = r.read().decode("utf8", "replace")
    except BaseException as e:      # noqa
        res["exc"] = type(e).__name__ + ": " + str(e)[:120]
    try:
        os.stat(MARK_END)
    except OSError:
        pass
    m = re.search(rb"<DTPROFUP>(\d{8})", posted[0]) if posted else None
    res["asked"] = m.group(1).decode() if m else ""
    json.dump(res, open(resultfile, "w"))


def run_child(python, repo, datadir, answerfile, resultfile, strace_args=None, log=None):
    cmd = [python, os.path.abspath(__file__), "child", repo, datadir, answerfile, resultfile]
    if strace_args is not None:
        cmd = ["strace", "-f", "-o", log, "-e", "trace=" + TRACED] + strace_args + cmd
    if os.path.exists(resultfile):
        os.unlink(resultfile)
    p = subprocess.run(cmd, capture_output=True, text=True, timeout=300,
                       env=dict(os.environ, PYTHONHASHSEED="0", PYTHONDONTWRITEBYTECODE="1"))
    res = json.load(open(resultfile)) if os.path.exists(resultfile) else None
    return p.returncode, res


def calibrate(log, cachedir):
    """-> list of (syscall, ordinal since process start, text) for the syscalls of the call that touch the cache directory
    (or a descriptor opened there)"""
    counts = {}
    inside = False
    fds = set()
    out = []
    for line in open(log, errors="replace"):
        m = LINE.match(line)
        if not m:
            continue
        name, rest = m.group(2), m.group(3)
        counts[name] = counts.get(name, 0) + 1
        if MARK_BEGIN in rest:
            inside = True
            continue
        if MARK_END in rest:
            inside = False
        if not inside:
            continue
        touches = cachedir in rest
        if name in ("openat", "open", "creat") and touches:
            r = re.search(r"=\s*(\d+)\s*$", line)
            writing = any(f in rest for f in ("O_WRONLY", "O_RDWR", "O_CREAT", "O_TRUNC", "O_APPEND")) or name == "creat"
            if r and writing:
                fds.add(r.group(1))
            touches = writing
        if name in FD_CALLS:
            fd = rest.split(",")[0].split(")")[0].strip()
            touches = fd in fds
            if name == "close" and touches:
                fds.discard(fd)
        if name in ("sendfile", "copy_file_range"):
            # (out_fd, in_fd, ...) / (fd_in, off_in, fd_out, ...)
            args = [a.strip() for a in rest.split(",")]
            out_fd = args[0] if name == "sendfile" else (args[2] if len(args) > 2 else "")
            touches = out_fd in fds
        if touches and name in KILLABLE:
            out.append((name, counts[name], line.strip()[:160]))
    return out


if __name__ == "__main__" and len(sys.argv) > 1 and sys.argv[1] == "child":
    child()
