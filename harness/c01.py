"""C01 - serialize-then-parse returns the same model, for every class and wire form.

M: MC_Syntax (every rendering of a tree parses to it), MC_Header (every header layout), MC_Gen
   (generated documents are valid), MC_Schema (minimal documents) - the three layers whose
   composition OFXFile.ReadFile is.
G: TLC-simulated valid instances of all classes (and the minimal instance of every class) with
   values over the full range (markup characters, quotes, non-ASCII, max length, negative / zero /
   high-scale decimals, date-times in non-UTC zones with sub-millisecond parts).
T: every instance is written by OFXClient.serialize in the 6 wire forms x header versions and read
   back by OFXTree; TLC reads the written bytes itself (header, wire syntax, document machine) and
   judges: the file denotes the original instance, and the model read back equals it.
"""
import datetime
import decimal
import random

import doc_common as dc
import export_schema
import file_common as fc
import gen_common as gc
import types_common as tc


_U = datetime.datetime
DST_ZONES = [tc.RuleTZ(-300, -240, _U(2021, 3, 14, 7), _U(2021, 11, 7, 6), ("EST", "EDT")),
             tc.RuleTZ(630, 660, _U(2021, 10, 2, 15, 30), _U(2022, 4, 2, 15), ("LHST", "LHDT")),
             tc.RuleTZ(60, 0, _U(2021, 10, 31, 1), _U(2022, 3, 27, 1), ("IST", "GMT"))]


def perturb_datetimes(inst, schema, rnd):
    """give some date-time children a non-UTC zone and a sub-millisecond part"""
    from ofxtools.models.base import Aggregate
    cls = type(inst).__name__
    for a in schema[cls]["attrs"]:
        if a["k"] == "elem":
            v = getattr(inst, a["a"])
            if isinstance(v, decimal.Decimal) and rnd.random() < 0.3:
                # values a caller sets directly: zeros and trailing zeros keep their exponent
                try:
                    setattr(inst, a["a"], decimal.Decimal(rnd.choice(["0.00", "-0.000", "1.50", "100", "0", "-0", "0.10", "12345678901234567890123456789.123"])))
                except Exception:
                    pass
            if isinstance(v, datetime.datetime) and rnd.random() < 0.12:
                # a zone with daylight saving: instants in and around the repeated hour (fold) and the skipped hour
                z = rnd.choice(DST_ZONES)
                edge = rnd.choice([z.start, z.end])
                u = edge + datetime.timedelta(microseconds=rnd.choice([-1800000000, -400, -1, 0, 499, 500, 1800000000, 3599999600, 5400000000]))
                try:
                    setattr(inst, a["a"], u.replace(tzinfo=datetime.timezone.utc).astimezone(z))
                except Exception:
                    pass
            elif isinstance(v, datetime.datetime) and rnd.random() < 0.5:
                off = rnd.choice([-300, 330, -570, 60, 840, -720, -30])
                tz = datetime.timezone(datetime.timedelta(minutes=off), rnd.choice(["EST", "X Y", "é"]))
                v2 = (v + datetime.timedelta(microseconds=rnd.choice([0, 1, 499, 500, 501, 999]))).astimezone(tz)
                setattr(inst, a["a"], v2)
        elif a["k"] == "sub":
            v = getattr(inst, a["a"])
            if isinstance(v, Aggregate):
                perturb_datetimes(v, schema, rnd)
    for m in inst:
        if isinstance(m, Aggregate):
            perturb_datetimes(m, schema, rnd)
    # members of several classes in an order of the caller's choosing (any order is legal within a run of repeated children;
    # classes whose repeated children are not adjacent are written run by run and left alone here)
    attrs = schema[cls]["attrs"]
    li = [i for i, a in enumerate(attrs) if a["k"] in ("lagg", "lelem")]
    one_run = li and all(attrs[i]["k"] in ("lagg", "lelem", "unsup") for i in range(li[0], li[-1] + 1))
    if one_run and len({type(m).__name__ for m in inst}) >= 2 and rnd.random() < 0.5:
        inst.reverse()


def run(ctx):
    from ofxtools.models.base import Aggregate
    quick = ctx.tier == "quick"
    schema, types = export_schema.write(ctx)
    mins, _ = dc.mindocs(ctx)
    rnd = random.Random(ctx.seed * 141650939 + 1)
    ctx.rule = ("instances = minimal instance of each of the 390 classes + TLC-simulated valid instances (all classes as root) "
                "with rich values; each written in wire forms {XML, SGML closed, SGML unclosed} x {plain, pretty} x header "
                "versions (quick: 2 forms per instance, all 6 over the run; thorough: all 6); non-trivial = distinct "
                "(instance, form) with >= 2 data elements")
    docs = [("min " + c, dc.from_nested(mins[c])) for c in sorted(schema)]
    for i, g in enumerate(gc.simulate_docs(ctx, 600 if quick else 12000, maxtok=40)):
        docs.append(("gen%d" % i, gc.concretise(g, types, rnd, rich=True)))
    # classes with several repeated children: one member of each (the members in declaration order, and reversed in memory)
    from c13 import add_child
    import copy as _copy
    for cls in sorted(schema):
        attrs = schema[cls]["attrs"]
        li = [i for i, a in enumerate(attrs) if a["k"] in ("lagg", "lelem")]
        if len(li) < 2 or cls not in mins:
            continue
        node = _copy.deepcopy(mins[cls])
        for a in attrs:
            if a["k"] in ("lagg", "lelem") and a["tag"] not in [k[0] for k in node[2]]:
                try:
                    node = add_child(node, cls, a, schema, types, mins)
                except Exception:
                    pass
        docs.append(("multi " + cls, dc.from_nested(node)))
        docs.append(("multi-rev " + cls, dc.from_nested(node)))
    evs = []
    nform = {}
    for n, (name, doc) in enumerate(docs):
        try:
            inst = Aggregate.from_etree(dc.to_etree(doc))
        except Exception as e:
            ctx.fail({"clause": "build", "label": name, "what": "valid document rejected: %s %r" % (dc.doc_text(doc)[:300], e)})
            continue
        if name.startswith("multi-rev "):
            at_ = schema[type(inst).__name__]["attrs"]
            li_ = [i for i, a in enumerate(at_) if a["k"] in ("lagg", "lelem")]
            if all(at_[i]["k"] in ("lagg", "lelem", "unsup") for i in range(li_[0], li_[-1] + 1)):
                inst.reverse()
        elif rnd.random() < 0.6:
            perturb_datetimes(inst, schema, rnd)
        forms = fc.FORMS if not quick else rnd.sample(fc.FORMS, 2)
        for form, pretty in forms:
            version = rnd.choice(fc.V2 if form == "xml" else fc.V1)
            e = fc.ev_file("f%d" % len(evs), inst, schema, form, pretty, version, label=name)
            evs.append(e)
            nform[e["form"].split("/")[0]] = nform.get(e["form"].split("/")[0], 0) + 1
            if sum(1 for t in doc if t["e"] == "leaf") >= 2:
                ctx.nontrivial.add((n, form, pretty))
    ctx.extra["events_per_form"] = nform
    ctx.evaluations = len(evs)
    for e in evs[:2]:
        ctx.sample({"label": e["label"], "form": e["form"], "file": bytes(e["file"]).decode("utf8", "replace")[:500]})
    fc.judge(ctx, evs)
