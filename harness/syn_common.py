"""Recorder for ofxtools.Parser.TreeBuilder and helpers to build/render abstract trees."""
from core import cps, uncps

TAGCH = "ABCDEFGHIJKLMNOPQRSTUVWXYZ0123456789._"


def project_tree(el):
    return [cps(el.tag), cps(el.text or ""), [project_tree(k) for k in el]]


def ev_parse(eid, text, want=None, via=None):
    """via=None: the text through TreeBuilder.feed/close; via=<version>: the text as the body of a file with that version's
    header through OFXTree.parse (the way files are read)"""
    from ofxtools.Parser import TreeBuilder
    try:
        if via is None:
            b = TreeBuilder()
            b.feed(text)
            root = b.close()
        else:
            import io
            from ofxtools.Parser import OFXTree
            from ofxtools.header import make_header
            t = OFXTree()
            root = t.parse(io.BytesIO(str(make_header(via)).encode("ascii") + text.encode("utf8")))
        if root is None:
            # no error and no tree: the caller was told nothing - reported as an (empty) acceptance, never as a refusal
            out = {"ok": True, "tree": [], "exc": "returned None"}
        else:
            out = {"ok": True, "tree": project_tree(root), "exc": ""}
    except Exception as e:
        out = {"ok": False, "tree": [], "exc": type(e).__name__}
    return {"id": eid, "op": "parse", "txt": cps(text), "out": out,
            "haswant": want is not None, "want": want if want is not None else []}


def rand_tag(rnd):
    n = rnd.choice([1, 1, 2, 3, 5, 8, 12])
    return "".join(rnd.choice(TAGCH) for _ in range(n))


DATA_ALPHA = "abcXYZ019 .,-_/:;()'\"é€漢😀>]&"


def rand_data(rnd):
    k = rnd.random()
    if k < 0.2:
        # (interior line separators of every kind are data like any other character)
        s = rnd.choice(["x", "1", "a b", "a &amp; b", "&lt;tag&gt;", "1,5", "x>y", "]]", "é€", "a\tb", "line1\nline2", "a  b",
                        "l1\r\nl2", "a\rb", "a\x0bb", "a\x0cb", "a\x1cb\x1dc\x1ed", "a\x85b", "a\u2028b\u2029c", "x\r\n\r\ny"])
    else:
        s = "".join(rnd.choice(DATA_ALPHA) for _ in range(rnd.randrange(1, 20)))
    s = s.strip()
    return s or "x"


def rand_tree(rnd, budget, depth=0):
    """abstract tree [tag, data, kids] as strings"""
    tag = rand_tag(rnd)
    if budget[0] <= 0 or depth >= 5 or rnd.random() < 0.45:
        budget[0] -= 1
        if rnd.random() < 0.12:
            return [tag, "", []]      # empty aggregate
        return [tag, rand_data(rnd), []]
    budget[0] -= 1
    kids = []
    for _ in range(rnd.randrange(1, 5)):
        if budget[0] <= 0:
            break
        kids.append(rand_tree(rnd, budget, depth + 1))
        if rnd.random() < 0.08 and not kids[-1][2]:
            # the same data element twice (or three times) in a row, identical or with other data
            twin = [kids[-1][0], kids[-1][1] if rnd.random() < 0.7 else rand_data(rnd), []]
            kids.append(list(twin))
            if rnd.random() < 0.3:
                kids.append(list(twin))
    return [tag, "", kids]


WS = ["", "", "\n", "\r\n", " ", "\t", "\n    ", "\r\n\t", "  \n"]


def render(rnd, t, style=None):
    """one rendering of the tree allowed by the wire syntax; style: None=mixed, 'xml', 'sgml'"""
    tag, data, kids = t
    ws = (lambda: rnd.choice(WS))
    if data:
        cd = ("&" not in data and "]]>" not in data and data == data.strip() and rnd.random() < 0.25)
        body = "<![CDATA[" + data + "]]>" if cd else data
        close = {"xml": True, "sgml": False}.get(style, rnd.random() < 0.5)
        return ws() + "<" + tag + ">" + ws() + body + ws() + ("</" + tag + ">" if close else "")
    return ws() + "<" + tag + ">" + "".join(render(rnd, k, style) for k in kids) + ws() + "</" + tag + ">" + ws()


def abstract(t):
    return [cps(t[0]), cps(t[1]), [abstract(k) for k in t[2]]]


def same_tag_nesting(t):
    return any(k[0] == t[0] or same_tag_nesting(k) for k in t[2])


def describe(e):
    def tr(t):
        return [uncps(t[0]), uncps(t[1]), [tr(k) for k in t[2]]] if t else t
    return {"text": uncps(e["txt"]), "out": dict(e["out"], tree=tr(e["out"]["tree"])),
            "want": tr(e["want"]) if e["haswant"] else None}


def judge(ctx, evs):
    mism = ctx.validate_trace("Trace_Syntax", evs)
    byid = {e["id"]: e for e in evs}
    for eid, clauses in mism.items():
        d = describe(byid[eid])
        for cl in clauses:
            ctx.fail(dict(d, clause=cl, what="%s: text=%r out=%s" % (cl, d["text"][:300], str(d["out"])[:300])))
