"""E03 (extension, not one of the listed properties) - the OFX Home client: what a looked-up record means and when
it is still trusted.

M: MC_Home: un-escaping inverts escaping and leaves plain text alone, fields are never padded, trust is monotone in
   age and strict at the 90-day boundary; OBSERVATION UnknownFlagUntrusted is violated (an EMPTY failure flag counts as
   "did not fail" while a MISSING one counts as failed).
G: the texts TLC enumerates (MC_Home Emit) become the fields of records served by a fake OFX Home.
T: real ofxhome.lookup / ofx_invalid / ssl_invalid / list_institutions calls over that fake (XML on the wire, clock
   fixed), judged by Trace_Home.
"""
import datetime
import io
import random
import types
import urllib.error
import urllib.parse
from xml.sax import saxutils

from core import cps, uncps, MachineryError

STRF = ["name", "fid", "org", "url", "brokerid"]
TEXTS = ["", "a", " a ", "A&amp;B", "A&B", "x &lt; y", "&", "&amp;amp;", "\xa0pad\xa0", " ", "a<b>c", "\t\n",
         "https://h.invalid/?a=1&region=2&copy=3", "R&D;x", "&gt;&lt;", "é€"]
FLAGS = ["", "0", "1", "2", "00", " 1 ", "x", "1.0"]
NOW = datetime.datetime(2020, 6, 1, 12, 0, 0)


class _Resp(io.BytesIO):
    def __enter__(self):
        return self

    def __exit__(self, *a):
        return False


def run(ctx):
    import ofxtools.ofxhome as oh
    quick = ctx.tier == "quick"
    rnd = random.Random(ctx.seed * 7919 + 3)
    ctx.rule = ("records = every text TLC enumerates (3 fragments of 12) as a field + seeded records (missing / empty / repeated / "
                "unknown elements, raw FID, flags, unreachable, no id); trust = flag x known time x age (boundaries to the "
                "microsecond) x valid_days; lists with padded and repeated ids; non-trivial = distinct (op, shape, outcome)")
    cfg = "SPECIFICATION Spec\n" + "".join("INVARIANT %s\n" % i for i in ("UnescapeInverts", "UnescapeLeavesPlain", "FieldStripped",
                                                                         "BlankIsEmptyNotNone", "TrustMonotone", "BoundaryTrusted"))
    r = ctx.tlc("MC_Home", cfg, tag="mc")
    if r.violated:
        raise MachineryError("MC_Home: %s" % r.violated)
    r = ctx.tlc("MC_Home", "SPECIFICATION Spec\nINVARIANT UnknownFlagUntrusted\n", tag="mc-observation", expect_ok=False)
    if "UnknownFlagUntrusted" not in r.violated:
        raise MachineryError("MC_Home: the observation UnknownFlagUntrusted was expected to be violated")
    g = ctx.tlc("MC_Home", "SPECIFICATION Spec\nCONSTRAINT Emit\n", workers=1, tag="emit")
    gtexts = sorted({uncps(c["t"]) for c in g.printed_json("TXT")})
    ctx.extra["texts_from_tlc"] = len(gtexts)
    served = {}

    def urlopen(query, *a, **k):
        q = urllib.parse.parse_qs(urllib.parse.urlparse(query).query, keep_blank_values=True)
        key = "all" if "all" in q else (q.get("lookup") or [""])[0]
        ans = served.get(key)
        if ans is None:
            raise urllib.error.URLError("unreachable")
        return _Resp(ans)

    class FakeDT(datetime.datetime):
        @classmethod
        def now(cls, tz=None):
            return NOW
    orig = (oh.urllib, oh.datetime)
    oh.urllib = types.SimpleNamespace(request=types.SimpleNamespace(urlopen=urlopen), error=urllib.error, parse=urllib.parse)
    oh.datetime = types.SimpleNamespace(datetime=FakeDT, timedelta=datetime.timedelta)
    evs = []
    try:
        # ---- lookups
        recs = []
        for t in gtexts:
            recs.append(("424", "record", [(rnd.choice(STRF), t)], False))
        for _ in range(300 if quick else 6000):
            els = []
            for f in STRF:
                k = rnd.random()
                if k < 0.75:
                    els.append((f, rnd.choice(TEXTS)))
                if k < 0.08:
                    els.append((f, rnd.choice(TEXTS)))      # repeated element
            for f in ("ofxfail", "sslfail"):
                if rnd.random() < 0.8:
                    els.append((f, rnd.choice(FLAGS[:6]) if rnd.random() < 0.9 else rnd.choice(FLAGS)))
            if rnd.random() < 0.05:
                els.append(("notes", "x"))                   # a tag the record type does not know
            rnd.shuffle(els)
            kind = "neterr" if rnd.random() < 0.05 else "record"
            lid = "" if rnd.random() < 0.05 else rnd.choice(["424", " 7 ", "x&y"])
            recs.append((lid, kind, els, rnd.random() < 0.15))
        for i, (lid, kind, els, rawfid) in enumerate(recs):
            parts = []
            raw_used = False
            for tag, text in els:
                if tag == "fid" and rawfid and ("& " in text or text.endswith("&")) and "<" not in text:
                    parts.append("<fid>%s</fid>" % text)      # OFX Home forgets to escape the FID
                    raw_used = True
                else:
                    parts.append("<%s>%s</%s>" % (tag, saxutils.escape(text), tag))
            xml = "<institution id=%s>%s</institution>" % (saxutils.quoteattr(lid), "".join(parts))
            served.clear()
            if kind == "record":
                served[lid] = xml.encode("utf8")
            try:
                res = oh.lookup(lid)
                if res is None:
                    out = {"k": "none"}
                else:
                    out = {"k": "server", "id": cps(res.id),
                           "str": {f: ({"set": True, "s": cps(getattr(res, f))} if getattr(res, f) is not None else {"set": False, "s": []})
                                   for f in STRF},
                           "flag": {f: {True: "true", False: "false", None: "none"}[getattr(res, f)] for f in ("ofxfail", "sslfail")}}
            except Exception as e:
                out = {"k": "raise", "exc": type(e).__name__}
            evs.append({"id": "l%d" % i, "op": "lookup", "lid": cps(lid),
                        "answer": {"kind": kind, "rec": {"id": cps(lid), "els": [{"tag": t_, "text": cps(x)} for t_, x in els]}},
                        "out": out, "rawfid": raw_used})
            ctx.nontrivial.add(("lookup", kind, bool(lid), raw_used, out["k"], tuple(sorted({t_ for t_, _ in els}))))
        # ---- trust
        ages = [(0, 0), (1, 0), (86400, 0), (86400, 1), (7775999, 999999), (7776000, 0), (7776000, 1), (7776001, 0), (9000000, 5)]
        k = 0
        for which, fn, ffield, tfield in (("ofx", oh.ofx_invalid, "ofxfail", "lastofxvalidation"), ("ssl", oh.ssl_invalid, "sslfail", "lastsslvalidation")):
            for flag in ("true", "false", "none"):
                for haslast in (True, False):
                    for age in ages + [(rnd.randrange(0, 9000000), rnd.randrange(0, 1000000)) for _ in range(3 if quick else 40)]:
                        for days in (-1, 0, 1, 90, rnd.randrange(2, 100)):
                            srv = oh.OFXServer(id="1", **{ffield: {"true": True, "false": False, "none": None}[flag],
                                                          tfield: (NOW - datetime.timedelta(seconds=age[0], microseconds=age[1])) if haslast else None})
                            out = fn(srv) if days == -1 else fn(srv, valid_days=days)
                            evs.append({"id": "t%d" % k, "op": "trust", "which": which, "flag": flag, "haslast": haslast,
                                        "age": list(age), "days": days, "out": bool(out)})
                            ctx.nontrivial.add(("trust", which, flag, haslast, days in (-1, 0), bool(out)))
                            k += 1
        # ---- lists
        for i in range(20 if quick else 400):
            entries = [(rnd.choice(["1", " 1", "2 ", "30", "4&5", " x "]), rnd.choice(["Bank", " Bank & Co ", "A<B", "\tT\n", "é"]))
                       for _ in range(rnd.randrange(0, 6))]
            xml = "<institutionlist>%s</institutionlist>" % "".join(
                "<institutionid id=%s name=%s/>" % (saxutils.quoteattr(a), saxutils.quoteattr(b).replace("\n", "&#10;").replace("\t", "&#9;"))
                for a, b in entries)
            served.clear()
            served["all"] = xml.encode("utf8")
            try:
                res = oh.list_institutions()
                out = [{"id": cps(a), "name": cps(b)} for a, b in sorted(res.items())]
            except Exception as e:
                ctx.fail({"clause": "list-raises", "what": "list_institutions raised %r on %s" % (e, xml)})
                continue
            evs.append({"id": "i%d" % i, "op": "list", "entries": [{"id": cps(a), "name": cps(b)} for a, b in entries], "out": out})
            ctx.nontrivial.add(("list", len(entries), len(out)))
    finally:
        oh.urllib, oh.datetime = orig
    ctx.evaluations = len(evs)
    for e in evs[:2]:
        ctx.sample({"op": e["op"], "out": str(e["out"])[:200]})
    mism = ctx.validate_trace("Trace_Home", evs)
    byid = {e["id"]: e for e in evs}
    for eid, clauses in mism.items():
        e = byid[eid]
        for cl in clauses:
            d = {k: v for k, v in e.items() if k not in ("answer",)}
            if e["op"] == "lookup":
                d["els"] = [(x["tag"], uncps(x["text"])) for x in e["answer"]["rec"]["els"]]
            ctx.fail({"clause": cl.split(" ")[0], "detail": cl, "what": "%s: %s" % (cl, str(d)[:500])})
