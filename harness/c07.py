"""C07 - unknown and vendor-specific tags never change or break the converted result.

M: the document machine skips unknown / vendor-prefixed elements and subtrees (StepDoc: skip depth);
   MC_Gen GenAccepted keeps generated documents valid.
G: for the TLC-computed minimal document of every class and TLC-simulated valid documents: every
   insertion position x {unknown data element, unknown empty element, unknown aggregate with
   known content, tag known elsewhere, vendor-prefixed element, vendor-prefixed aggregate},
   through from_etree directly and through the XML and SGML wire renderings.
T: TLC judges the mutated document (accept, model equal to the machine's) and the model must equal
   the conversion of the document without the insertions (twin).
"""
import copy
import random

import doc_common as dc
import export_schema
import gen_common as gc


def unknowns(rnd):
    T = dc
    return [
        ("unknown-leaf", [T.T_leaf("ZZUNKNOWN", "some &amp; value")]),
        ("unknown-empty", [T.T_open("ZZEMPTY"), T.T_CLOSE]),
        ("unknown-aggregate-known-content", [T.T_open("ZZAGG"), T.T_open("STATUS"), T.T_leaf("CODE", "0"), T.T_leaf("SEVERITY", "INFO"),
                                             T.T_CLOSE, T.T_leaf("TRNUID", "1"), T.T_open("ZZINNER"), T.T_CLOSE, T.T_CLOSE]),
        ("known-elsewhere-aggregate", [T.T_open("CURRENCY"), T.T_leaf("CURRATE", "1.5"), T.T_leaf("CURSYM", "USD"), T.T_CLOSE]),
        ("known-elsewhere-leaf", [T.T_leaf("ZZCHECKNUM9", "12")]),
        ("vendor-leaf", [T.T_leaf("INTU.BID", "67811")]),
        ("vendor-aggregate", [T.T_open("INTU.XAGG"), T.T_leaf("INTU.A", "1"), T.T_leaf("CODE", "x"), T.T_CLOSE]),
        ("vendor-underscore", [T.T_leaf("FI.X_Y", "1")]),
        # unknown tags whose lower-cased names are attributes of the Python classes (list methods, properties, helpers)
        ("unknown-leaf-python-name", [T.T_leaf(rnd.choice(["COUNT", "INDEX", "COPY", "SORT", "SPEC", "GROOM", "APPEND", "ACCOUNT", "BALANCE",
                                                           "TRANSACTIONS", "STATEMENTS", "SIGNON", "ELEMENTS", "POP", "CLEAR"]), "3")]),
        ("unknown-aggregate-python-name", [T.T_open(rnd.choice(["EXTEND", "REVERSE", "SUBAGGREGATES", "UNSUPPORTED", "SECURITIES"])),
                                           T.T_leaf("CODE", "1"), T.T_CLOSE]),
        # unknown data whose text looks like a format template
        ("unknown-leaf-template-text", [T.T_leaf("ZZNOTE", rnd.choice(['{"tier": 3}', "page {0} of {1}", "see section 3}", "{", "%s and %d", "{cls}", "100%"]))]),
        # a tag that names a model class the enclosing aggregate does not define, with content invalid for that class:
        # it is unknown HERE and skipped like any other unknown tag (never converted first)
        ("known-elsewhere-aggregate-empty", [T.T_open(rnd.choice(["STMTTRN", "BANKACCTFROM", "SONRS", "INVPOS"])), T.T_CLOSE]),
        ("known-elsewhere-aggregate-incomplete", [T.T_open("BANKACCTFROM"), T.T_leaf("BANKID", "1"), T.T_CLOSE]),
        ("known-elsewhere-aggregate-bad-value", [T.T_open("LEDGERBAL"), T.T_leaf("BALAMT", "not a number"), T.T_leaf("DTASOF", "yesterday"), T.T_CLOSE]),
        ("known-elsewhere-aggregate-disordered", [T.T_open("CURRENCY"), T.T_leaf("CURSYM", "USD"), T.T_leaf("CURRATE", "1.5"), T.T_leaf("CURSYM", "EUR"), T.T_CLOSE]),
        # long names (SGML NAMELEN is not a limit of OFX), names with several dots
        ("unknown-leaf-long-name", [T.T_leaf("Z" * rnd.choice([31, 32, 33, 40, 64]), "1")]),
        ("unknown-aggregate-long-name", [T.T_open("ZZ" + "LONGNAME" * rnd.choice([4, 5, 8])), T.T_leaf("ZZLEAF", "x"), T.T_CLOSE]),
        ("vendor-aggregate-long-name", [T.T_open("INTU." + "X" * rnd.choice([27, 28, 40])), T.T_leaf("INTU.A", "1"), T.T_CLOSE]),
        ("vendor-leaf-two-dots", [T.T_leaf(rnd.choice(["INTU.ACCT.ID", "COM.INTUIT.BID", "A.B.C.D"]), "7")]),
        ("vendor-aggregate-two-dots", [T.T_open("INTU.EXT.V2"), T.T_leaf("INTU.A.B", "1"), T.T_CLOSE]),
        # a data element that IS defined - elsewhere: here it is unknown, and skipping it must not teach the library anything
        ("known-elsewhere-leaf-real-name", [T.T_leaf(rnd.choice(["MEMO", "NAME", "TRNAMT", "CHECKNUM", "FITID", "CODE", "SEVERITY", "ACCTID", "DTPOSTED"]), "1")]),
        # an unknown wrapper whose name starts with a digit / underscore / dot, around a COPY of a data element the enclosing
        # aggregate already has (if the wrapper's tags were lost the copy would count as a repetition)
        ("wrapper-odd-name-around-known-leaf", [T.T_open(rnd.choice(["401KDETAIL", "1099INFO", "_EXT", "3RDPARTY.INFO", "9"])), "COPY-FIRST-LEAF", T.T_CLOSE]),
        # an unknown NON-EMPTY aggregate whose name is a data element's elsewhere
        ("unknown-aggregate-named-like-an-element", [T.T_open(rnd.choice(["MESSAGE", "NAME", "URL", "BALAMT", "MEMO", "FITID", "DTSERVER", "TRNAMT"])),
                                                     T.T_leaf("ZZLANG", "x"), T.T_open("ZZINNER"), T.T_leaf("CODE", "1"), T.T_CLOSE, T.T_CLOSE]),
        # unknown aggregates nested far deeper than any model path
        ("unknown-aggregate-deep", [T.T_open("ZZD%d" % i) for i in range(24)] + [T.T_leaf("ZZLEAF", "x")] + [T.T_CLOSE] * 24),
        # an unknown element named like an element that is open around it / like itself
        ("unknown-nested-same-tag", [T.T_open("ZZSAME"), T.T_open("ZZSAME"), T.T_leaf("ZZLEAF", "x"), T.T_CLOSE, T.T_CLOSE]),
    ]


def positions(doc):
    """indices i such that inserting before doc[i] is inside the root aggregate"""
    return list(range(1, len(doc)))


def depth_ok(doc, i, schema):
    """not inside a data element (always true for token lists) - every position is legal"""
    return True


def first_leaf_of_enclosing(doc, i):
    """the first data element directly inside the aggregate that encloses position i"""
    depth = 0
    start = None
    for j in range(i - 1, -1, -1):
        t = doc[j]
        if t["e"] == "close":
            depth += 1
        elif t["e"] == "open":
            if depth == 0:
                start = j
                break
            depth -= 1
    if start is None:
        return None
    depth = 0
    for t in doc[start + 1:]:
        if t["e"] == "open":
            depth += 1
        elif t["e"] == "close":
            if depth == 0:
                return None
            depth -= 1
        elif depth == 0:
            return t
    return None


def enclosing(doc, i):
    """tag of the aggregate enclosing position i"""
    st = []
    for t in doc[:i]:
        if t["e"] == "open":
            st.append(t["tag"])
        elif t["e"] == "close":
            st.pop()
    return st[-1] if st else None


def run(ctx):
    quick = ctx.tier == "quick"
    schema, types = export_schema.write(ctx)
    mins, _ = dc.mindocs(ctx)
    rnd = random.Random(ctx.seed * 982451653 + 7)
    ctx.rule = ("base documents = minimal document of each of the 390 classes + TLC-simulated valid documents; mutation = one "
                "or several unknown / vendor elements or subtrees inserted at a position inside any aggregate (quick: sampled "
                "positions, thorough: every position, 3 kinds each); routes: from_etree, XML text, SGML text; non-trivial = distinct "
                "(base document, position, kind, route)")
    bases = [("min " + c, dc.from_nested(mins[c])) for c in sorted(schema)]
    for i, g in enumerate(gc.simulate_docs(ctx, 300 if quick else 1200, maxtok=30, jvms=2 if quick else 8)):
        bases.append(("gen%d" % i, gc.concretise(g, types, rnd, rich=True, wire=True)))
    evs = []
    n = 0
    for name, base in bases:
        e0 = dc.ev_doc("b%d" % n, base, schema, route="etree", label=name, expect="accept")
        evs.append(e0)
        if not e0["out"]["ok"]:
            n += 1
            continue
        twin = e0["out"]["inst"]
        pos = positions(base)
        if quick:
            pos = rnd.sample(pos, min(len(pos), 4))
        for p in pos:
            enc = enclosing(base, p)
            kinds = unknowns(rnd)
            kinds = rnd.sample(kinds, 6 if quick else 4)
            for kind, toks in kinds:
                # a tag "known elsewhere" must not be defined by the enclosing aggregate
                if enc is not None and any(t["tag"] in {a["tag"] for a in schema.get(enc, {"attrs": []})["attrs"]}
                                           for t in toks[:1]):
                    continue
                toks = copy.deepcopy(toks)
                if "COPY-FIRST-LEAF" in toks:
                    first = first_leaf_of_enclosing(base, p)
                    if first is None:
                        continue
                    toks = [copy.deepcopy(first) if t == "COPY-FIRST-LEAF" else t for t in toks]
                doc = base[:p] + toks + base[p:]
                # (thorough: every position of every base; all three routes for the minimal documents)
                route = rnd.choice(["etree", "xml", "sgml"]) if quick or not name.startswith("min ") else None
                for r in ([route] if route else ["etree", "xml", "sgml"]):
                    e = dc.ev_doc("m%d" % len(evs), doc, schema, route=r, label="%s +%s@%d" % (name, kind, p),
                                  expect="accept", twin=twin)
                    evs.append(e)
                    ctx.nontrivial.add((name, p, kind, r))
        # several insertions at once
        doc = list(base)
        for _ in range(3):
            p = rnd.choice(positions(doc))
            kind, toks = rnd.choice(unknowns(rnd))
            if "COPY-FIRST-LEAF" in toks:
                continue
            enc = enclosing(doc, p)
            if enc is not None and toks[0]["tag"] in {a["tag"] for a in schema.get(enc, {"attrs": []})["attrs"]}:
                continue
            doc = doc[:p] + copy.deepcopy(toks) + doc[p:]
        evs.append(dc.ev_doc("x%d" % n, doc, schema, route=rnd.choice(["etree", "xml", "sgml"]), label=name + " +multi",
                             expect="accept", twin=twin))
        n += 1
    ctx.evaluations = len(evs)
    for e in evs[1:3]:
        ctx.sample({"label": e["label"], "route": e["route"], "doc": dc.doc_text(e["doc"])[:300], "ok": e["out"]["ok"]})
    dc.judge(ctx, evs)
