"""Runs construction attempts (doc_common.ev_doc) in THIS interpreter - used as a fresh subprocess so that a given
history precedes them: `prelude` = "bases" uses every class that has subclasses (class-level mappings, an instance, a
write) before any concrete class is touched.

    doc_worker.py <repo> <schema.json> <jobs.json> <out.json> <prelude>
"""
import json
import os
import sys


def main():
    repo, schemafile, jobfile, outfile, prelude = sys.argv[1:6]
    sys.path.insert(0, repo)
    sys.path.insert(0, os.path.dirname(os.path.abspath(__file__)))
    import logging
    logging.disable(logging.CRITICAL)
    if prelude == "bases":
        import c17_worker
        c17_worker.run_call("prelude", "bases", "prelude")
    import doc_common as dc
    d = json.load(open(schemafile))
    dc.TYPES = d["types"]
    out = []
    for j in json.load(open(jobfile)):
        e = dc.ev_doc(j["id"], j["doc"], d["schema"], route=j["route"], label=j["label"], expect=j["expect"])
        if e is not None:
            for k, v in j.get("extra", {}).items():
                e[k] = v
            out.append(e)
    json.dump(out, open(outfile, "w"))


if __name__ == "__main__":
    main()
