"""C11 - everything the serializer writes is lexically valid OFX for its declared type.

M: MC_Types WrittenIsLexical (every text the reference writer produces is lexical) and the lexical
   predicates of OFXTypes.
G: TLC-simulated valid instances of all classes, then ADVERSARIAL values set on their attributes:
   decimals of any exponent (1E+2, 0E-7, -0, 1E+30, normalised values), NaN / sNaN / +-Infinity,
   strings over all characters (markup, quotes, ']]>', entity-like, non-ASCII), date-times in all
   zones with arbitrary zone names, bool where an integer is declared.
T: every instance is written in the wire forms; TLC reads the written bytes itself and judges every
   data element: lexically valid for its declared type, no raw '<' and no '&' that does not start an
   entity.  A refusal (exception) is an accepted outcome for a value that cannot be written.
"""
import datetime
import decimal
import random

import doc_common as dc
import export_schema
import file_common as fc
import gen_common as gc

DECS = ["1E+2", "0E-7", "-0", "1E+30", "1E-30", "12.3400", "-0.00", "1234567890123456789012345678.9", "NaN", "sNaN",
        "Infinity", "-Infinity", "7E+0", "5E-1", "100", "0.1"]
STRS = ["a<b", "a&b", "a>b", "]]>", "<![CDATA[x]]>", "&amp;", "&lt;tag&gt;", "&", "&&", "&#65;", "&x", "é€漢😀", '"q\'', "a;b&c;d",
        "x < y && y > z", "</OFX>", "a&nbsp;b",
        "&amp;amp; &lt;b&gt;", "Ben&amp;Jerry; Inc. &lt;HQ&gt;", "&amp;#65; &amp; x", "p&amp;ss;w&lt;rd&amp;", "&amp;lt;&lt;"]
# (code points that Unicode composition EXCLUDES: normalising them makes the text longer)
STRS += ["\u0958\u0959\ufb2a\u0f43 x", "\u0f43\u0f4d", "e\u0301\u0958"]
ZONES = [(0, "UTC"), (-300, "EST"), (330, "IST"), (840, "+14"), (-720, None), (-30, "A&B"), (60, "x]y"), (345, "<NPT>"), (1, "a:b"),
         # local mean times: offsets with seconds, just short of a whole hour / minute
         (-419.9333, "LMT"), (-539.8, "LMT"), (59.5, "LMT"), (-0.5, "LMT"), (-1.25, "LMT"), (29.99, None)]


import enum as _enum


def enum_member(token):
    """a str-mixin Enum member that EQUALS the token (accepted wherever the token is) but formats as its qualified name"""
    name = "".join(c if c.isalnum() else "_" for c in token) or "X"
    if name[0].isdigit():
        name = "T" + name
    return _enum.Enum("Tok", {name: token}, type=str)[name]


def poison(inst, schema, types, rnd, log):
    """set adversarial values on data elements; values the model refuses are left alone"""
    from ofxtools.models.base import Aggregate
    cls = type(inst).__name__
    for a in schema[cls]["attrs"]:
        if a["k"] == "elem" and getattr(inst, a["a"]) is not None and rnd.random() < 0.6:
            t = types[int(a["ty"][1:])]
            k = t["k"]
            if k == "dec":
                v = rnd.choice([decimal.Decimal(rnd.choice(DECS))] * 3 +
                               [float("inf"), float("-inf"), float("nan"), 1e22, 0.1, -0.0, 5, 10 ** 30, True, "1e5", "NaN", " 1.5"])
            elif k in ("str", "nag"):
                v = rnd.choice(STRS)
                if t["len"] != -1 and (len(v) > t["len"] or rnd.random() < 0.4):
                    v = (v + "x" * t["len"])[:t["len"]]        # exactly at the limit
                if t["len"] != -1 and k == "str" and rnd.random() < 0.15:
                    # over the limit by white space only (padding is data: the model must refuse it, not write it)
                    v = ("x" * t["len"]) + rnd.choice([" ", "   ", "\t", "\n", "\xa0", " \r\n"])
            elif k == "dt":
                off, nm = rnd.choice(ZONES)
                tz = datetime.timezone(datetime.timedelta(minutes=off), nm) if nm else __import__("types_common").NamelessTZ(off)
                v = datetime.datetime(rnd.choice([1900, 1999, 2024, 2200]), rnd.randrange(1, 13), rnd.randrange(1, 29), rnd.randrange(24),
                                      rnd.randrange(60), rnd.randrange(60), rnd.choice([0, 499, 500, 999999]), tzinfo=tz)
                if rnd.random() < 0.08:
                    # the end of time: written correctly or refused, never with a fourth fraction digit
                    # (the last half millisecond of year 9999 cannot be rounded: such values are refused)
                    v = rnd.choice([datetime.datetime.max, datetime.datetime(9999, 12, 31, 23, 59, 59, 999600),
                                    datetime.datetime(9999, 12, 31, 23, 59, 59, 999500)]).replace(tzinfo=rnd.choice([datetime.timezone.utc, tz]))
            elif k == "int":
                v = rnd.choice([True, False, 0, -1, 1.0, 1.5, "0x10", " 7", decimal.Decimal("2"), "1_0"])
            elif k == "oneof":
                tok = "".join(map(chr, rnd.choice(t["valid"])))
                # ... or a token that belongs to ANOTHER enumeration (accepted there earlier in this process)
                others = [o for o in types if o["k"] == "oneof" and o is not t]
                foreign = "".join(map(chr, rnd.choice(rnd.choice(others)["valid"]))) if others else "X"
                if [ord(c) for c in foreign] in t["valid"]:
                    foreign = tok + "X"
                v = rnd.choice([tok.lower(), tok.capitalize(), tok + " ", " " + tok, tok.swapcase(), tok[:-1] or "X", tok + "\n", foreign, foreign,
                                enum_member(tok), enum_member(tok)])
            elif k == "bool":
                v = rnd.choice(["y", "n", "Yes", "true", 1, 0, "1", " Y"])
            elif k == "time":
                v = rnd.choice(["1234", "250000", datetime.time(1, 2, 3, 999999, tzinfo=datetime.timezone(datetime.timedelta(minutes=-30)))])
            else:
                continue
            try:
                setattr(inst, a["a"], v)
                log.append((k, repr(v)))
            except Exception:
                pass
        elif a["k"] == "sub":
            v = getattr(inst, a["a"])
            if isinstance(v, Aggregate):
                poison(v, schema, types, rnd, log)
    if schema[cls].get("elementlist") and len(inst) > 0 and rnd.random() < 0.6:
        # repeated data elements put in place by item assignment / slice assignment / += (the list interface of the
        # model): whatever gets in must be refused when written, never written unchecked
        la = next((a for a in schema[cls]["attrs"] if a["k"] == "lelem"), None)
        if la is not None:
            t = types[int(la["ty"][1:])]
            bad = {"str": "x" * (t["len"] + 5) if t["len"] != -1 else "a<b&c", "nag": "y" * 300, "oneof": "NOT_A_TOKEN", "int": "12x",
                   "bool": "maybe", "dec": "1.2.3"}.get(t["k"], "zz zz")
            how = rnd.randrange(3)
            try:
                if how == 0:
                    inst[0] = bad
                elif how == 1:
                    inst[0:1] = [bad]
                else:
                    inst += [bad]
                log.append(("lelem-" + t["k"], repr(bad)))
            except Exception:
                pass
    for m in inst:
        if isinstance(m, Aggregate):
            poison(m, schema, types, rnd, log)


def run(ctx):
    from ofxtools.models.base import Aggregate
    quick = ctx.tier == "quick"
    schema, types = export_schema.write(ctx)
    mins, _ = dc.mindocs(ctx)
    rnd = random.Random(ctx.seed * 122949829 + 11)
    ctx.rule = ("instances = TLC-simulated valid instances (all classes) + minimal instances; each also in an adversarial "
                "variant (values set through the model's own attribute interface); written in the 6 wire forms; TLC judges "
                "every written data element; non-trivial = distinct (adversarial value kind, value, form)")
    docs = [("min " + c, dc.from_nested(mins[c])) for c in sorted(schema)]
    for i, g in enumerate(gc.simulate_docs(ctx, 500 if quick else 8000, maxtok=40)):
        docs.append(("gen%d" % i, gc.concretise(g, types, rnd, rich=True)))
    evs = []
    # earlier in this process the client met unusable FI profiles (a foreign token, a malformed body): failures of one
    # operation leave nothing behind that changes what is written later
    try:
        import ofx_server
        import tempfile
        import ofxtools.config as _cfg
        from ofxtools.Client import OFXClient
        _old = _cfg.DATADIR
        with tempfile.TemporaryDirectory(dir=ctx.work) as td:
            _cfg.DATADIR = __import__("pathlib").Path(td)
            for bad in (ofx_server.profile(mins, "https://p.invalid/ofx").replace("<SYNCMODE>FULL", "<SYNCMODE>SOMETIMES", 1),
                        ofx_server.profile(mins, "https://p.invalid/ofx")[:-40], "garbage"):
                c = OFXClient("https://p.invalid/ofx", org="P", fid="1", version=203)
                c.post_request = lambda url, data, timeout, bad=bad: bad.encode()
                for call in (lambda: c.request_profile(), lambda: c._get_service_urls()):
                    try:
                        call()
                    except Exception:
                        pass
        _cfg.DATADIR = _old
    except Exception as ex:
        ctx.extra["profile_prelude_error"] = repr(ex)[:200]
    for n, (name, doc) in enumerate(docs):
        try:
            inst = Aggregate.from_etree(dc.to_etree(doc))
        except Exception:
            continue
        adv = rnd.random() < 0.75
        log = []
        if adv:
            poison(inst, schema, types, rnd, log)
        forms = fc.FORMS if not quick else rnd.sample(fc.FORMS, 2)
        for form, pretty in forms:
            version = rnd.choice(fc.V2 if form == "xml" else fc.V1)
            e = fc.ev_file("f%d" % len(evs), inst, schema, form, pretty, version, refusable=adv, adversarial=adv,
                           label=name + (" adversarial " + "; ".join("%s=%s" % x for x in log[:6]) if adv else ""))
            evs.append(e)
            for x in log:
                ctx.nontrivial.add((x, form))
    ctx.extra["refused_writes"] = sum(1 for e in evs if not e["wrote"])
    ctx.evaluations = len(evs)
    for e in evs[:1] + [x for x in evs if x["adversarial"]][:2]:
        ctx.sample({"label": e["label"][:300], "form": e["form"], "wrote": e["wrote"],
                    "file": bytes(e["file"]).decode("utf8", "replace")[-400:]})
    fc.judge(ctx, evs)
