"""C09 - date-time and time values mean the instant the OFX notation denotes.

M: MC_Types (modes dt, dtw): Conv agrees with an independent day count on the whole grid,
   every single-field corruption is rejected, every written text is lexical and reads back
   within half a millisecond.
G: TLC emits grid cases (text + corruptions, values to write); they are executed on the real
   DateTime / Time converters.
T: the recorded calls (grid + seeded random instants, offsets, zone names, corruptions) are
   validated by Trace_Types: TLC recomputes every outcome from OFXTypes.
"""
import datetime
import random

import types_common as tc
from core import cps, uncps

DT = tc.ty("dt")
TM = tc.ty("time")


def cfg(mode, years, step, invs):
    return ("SPECIFICATION Spec\nCONSTANTS\n  Years = {%s}\n  OffStep = %d\n  Mode = \"%s\"\n%s\nCONSTRAINT Emit\n"
            % (", ".join(map(str, years)), step, mode, "\n".join("INVARIANT " + i for i in invs)))


def off_text(rnd, off):
    a = abs(off)
    h, m = divmod(a, 60)
    form = rnd.choice(["signed", "unsigned", "padded", "dot00"])
    sign = "-" if off < 0 else ("" if form == "unsigned" else "+")
    if off == 0 and rnd.random() < 0.3:
        sign = "-"
    hh = "%02d" % h if form == "padded" else str(h)
    tail = ".%02d" % m if (m or form == "dot00") else ""
    return sign + hh + tail


NAMES = ["EST", "UTC", "GMT", "Z", "A:B", "Mountain Standard Time", "été", "+05", "x]y", "[", ""]


def random_events(ctx, rnd, n):
    evs = []
    lo = datetime.datetime(1900, 1, 1, tzinfo=datetime.timezone.utc)
    span = (datetime.datetime(2200, 12, 31, tzinfo=datetime.timezone.utc) - lo).days
    for i in range(n):
        inst = lo + datetime.timedelta(days=rnd.randrange(span), seconds=rnd.randrange(86400),
                                       microseconds=rnd.randrange(1000000))
        if rnd.random() < 0.25:   # boundaries
            inst = inst.replace(hour=rnd.choice([0, 23]), minute=rnd.choice([0, 59]),
                                second=rnd.choice([0, 59]), microsecond=rnd.choice([0, 499, 500, 501, 999499, 999500, 999999]))
        off = rnd.randrange(-720, 841)
        if rnd.random() < 0.3:
            off = rnd.choice([0, -30, 30, -1, 1, -59, 59, -720, 840, 330, -570])
        name = rnd.choice(NAMES)
        loc = inst.astimezone(datetime.timezone(datetime.timedelta(minutes=off)))
        isT = rnd.random() < 0.25
        date = "" if isT else loc.strftime("%Y%m%d")
        hms = loc.strftime("%H%M%S")
        ms = "%03d" % (loc.microsecond // 1000)
        ot = off_text(rnd, off)
        nm = (":" + name) if name else ""
        forms = [date + hms, date + hms + "." + ms, date + hms + "." + ms + "[" + ot + nm + "]",
                 date + hms + "[" + ot + nm + "]"]
        if not isT:
            forms.append(date)
        text = rnd.choice(forms)
        t = TM if isT else DT
        evs.append(tc.ev_conv("r%d" % i, t, text))
        ctx.nontrivial.add(("read", "time" if isT else "dt", forms.index(text), off % 60 != 0, off < 0))
        # garbage in the offset part, with a zone name the library knows (directed: found by the thorough tier)
        if rnd.random() < 0.08:
            g = rnd.choice(["2+8.40", "--9.24", "+-0.30", "5-", "1-6", "++06.13", "+7-57", "-0+.30", "3+00"])
            evs.append(tc.ev_conv("z%d" % i, t, date + hms + rnd.choice(["", "." + ms]) + "[" + g + ":" + rnd.choice(["EST", "PST", "CDT", "XYZ"]) + "]"))
        # offsets beyond the notation's range (-12 .. +14 hours)
        if rnd.random() < 0.06:
            g = rnd.choice(["+15", "-13", "+99", "15", "+24", "-24.00", "+15.30", "-13.59"])
            evs.append(tc.ev_conv("o%d" % i, t, date + hms + rnd.choice(["", "." + ms]) + "[" + g + rnd.choice(["", ":XYZ", ":EST"]) + "]"))
        # digits of another script (full-width, Arabic-Indic, Devanagari) are not digits of the notation
        if rnd.random() < 0.05 and text:
            pos = [j for j, ch in enumerate(text) if ch.isdigit()]
            if pos:
                j = rnd.choice(pos)
                alt = rnd.choice(["\uff10", "\u0660", "\u0966"])
                evs.append(tc.ev_conv("u%d" % i, t, text[:j] + chr(ord(alt) + int(text[j])) + text[j + 1:]))
        # a corruption of the text
        k = rnd.random()
        if text and k < 0.6:
            p = rnd.randrange(len(text))
            ch = rnd.choice("0123456789" * 3 + "xZ.[]:-+ ")
            bad = text[:p] + ch + text[p + 1:]
            if rnd.random() < 0.3:
                bad = text[:p] + text[p + 1:]
            elif rnd.random() < 0.2:
                bad = text[:p] + ch + text[p:]
            evs.append(tc.ev_conv("x%d" % i, t, bad))
        # write the instant in its zone, read it back
        if rnd.random() < 0.5:
            tz = datetime.timezone(datetime.timedelta(minutes=off), name) if name else tc.NamelessTZ(off)
            a = tc.dtv(inst.astimezone(tz))
            if isT:
                a = dict(a, t="timev", kind="time", day=0)
            evs.append(tc.ev_unconv("w%d" % i, t, a))
            if rnd.random() < 0.3:
                # the same value after it went through convert() as a Python value (as when it is set on a model attribute)
                el_ = tc.make_element(t)
                ok_, v_, _, _ = tc.call(el_.convert, tc.concretise(a))
                if ok_ and v_ is not None:
                    evs.append(tc.ev_unconv("v%d" % i, t, a, el=el_, pyval=v_))
            e = tc.ev_rt("b%d" % i, t, a)
            if e:
                evs.append(e)
            e = tc.ev_fix("f%d" % i, t, text)
            if e:
                evs.append(e)
            ctx.nontrivial.add(("write", "time" if isT else "dt", a["us"] >= 500, off % 60 != 0, off < 0, bool(name)))
    # zones with daylight saving (PEP 495 fold): instants around both transitions, in particular the last half
    # millisecond of the first pass through the repeated hour and the second pass itself
    U = datetime.datetime
    zones = [tc.RuleTZ(-300, -240, U(2021, 3, 14, 7), U(2021, 11, 7, 6), ("EST", "EDT")),
             tc.RuleTZ(630, 660, U(2021, 10, 2, 15, 30), U(2022, 4, 2, 15), ("LHST", "LHDT")),
             tc.RuleTZ(60, 0, U(2021, 10, 31, 1), U(2022, 3, 27, 1), ("IST", "GMT")),          # "negative" daylight saving
             tc.RuleTZ(-30, 30, U(2021, 5, 1, 0, 30), U(2021, 9, 1, 0), ("WST", "WDT"))]        # offset changes sign
    k = 0
    for z in zones:
        for edge in (z.start, z.end):
            for d_us in (-3600000000, -1800000000, -1000, -501, -500, -499, -400, -1, 0, 1, 499, 500, 1000, 1800000000, 3599999600,
                         3599999999, 3600000000, rnd.randrange(-7200000000, 7200000000)):
                inst = (edge + datetime.timedelta(microseconds=d_us)).replace(tzinfo=datetime.timezone.utc)
                v = inst.astimezone(z)
                evs.append(tc.ev_unconv("d%d" % k, DT, tc.dtv(v), pyval=v))
                ctx.nontrivial.add(("write-dst", z.names[1], edge is z.end, v.fold, d_us < 0))
                k += 1
    # the reading of a text does not depend on the zone of the machine: part of the texts are read again with the process
    # in another local zone (POSIX TZ strings: no zone database needed)
    import os as _os
    import time as _time
    if hasattr(_time, "tzset"):
        reads = [e for e in evs if e["op"] == "conv"][: max(20, n // 10)]
        old_tz = _os.environ.get("TZ")
        try:
            for zi, tzs in enumerate(("VRF-5:30", "VRG+8", "VRH-13")):
                _os.environ["TZ"] = tzs
                _time.tzset()
                for e in reads[zi::3]:
                    evs.append(tc.ev_conv("z%s-%d" % (e["id"], zi), e["ty"], __import__("core").uncps(e["txt"])))
        finally:
            if old_tz is None:
                _os.environ.pop("TZ", None)
            else:
                _os.environ["TZ"] = old_tz
            _time.tzset()
    # naive values are refused
    el_dt = tc.make_element(DT)
    el_tm = tc.make_element(TM)
    for i, v in enumerate([datetime.datetime(2020, 1, 1), datetime.datetime(1999, 12, 31, 23, 59, 59, 999999)]):
        ok, r, _, _ = tc.call(el_dt.unconvert, v)
        ok2, r2, _, _ = tc.call(el_dt.convert, v)
        if ok or ok2:
            ctx.fail({"what": "naive datetime accepted", "kind": "naive", "value": repr(v)})
    # (a time whose zone has date-dependent rules has no UTC offset of its own: it is naive)
    for v in [datetime.time(1, 2, 3), datetime.time(23, 59, 59, 999999), datetime.time(12, 0, 0, tzinfo=zones[0]),
              datetime.time(0, 30, 0, 250000, tzinfo=zones[1])]:
        ok, r, _, _ = tc.call(el_tm.unconvert, v)
        ok2, r2, _, _ = tc.call(el_tm.convert, v)
        if ok or ok2:
            ctx.fail({"what": "naive time accepted", "kind": "naive", "value": repr(v)})
    return evs


describe = tc.describe
judge = tc.judge


def run(ctx):
    quick = ctx.tier == "quick"
    years = [1999, 2000, 2024] if quick else [1900, 1999, 2000, 2023, 2024, 2100, 2200]
    step = 60 if quick else 15
    ctx.rule = ("grid cases are TLC states of MC_Types (calendar boundaries x notations x offsets x forms); "
                "random cases are seeded instants 1900-2200 at microsecond resolution x whole-minute offsets x zone names "
                "x single-character corruptions; non-trivial = distinct (direction, kind, notation, fractional-offset, sign, "
                "rounding-half, named) combinations exercised on the real code")
    # M: model-level theorems
    r1 = ctx.tlc("MC_Types", cfg("dt", years, step, ["ReadOK", "CorruptRejected", "DayCountsAgree"]),
                 env={"EMITMOD": 0}, tag="mc-dt")
    r2 = ctx.tlc("MC_Types", cfg("dtw", years, step, ["WriteOK", "WriteSome"]), env={"EMITMOD": 0}, tag="mc-dtw")
    for r in (r1, r2):
        if r.violated:
            raise __import__("core").MachineryError("model-level theorem violated in MC_Types: %s" % r.violated)
    # G: emit a thinned grid for replay (-workers 1 so that lines are whole)
    mod_r = 23 if quick else 29
    mod_w = 11 if quick else 13
    g1 = ctx.tlc("MC_Types", cfg("dt", years, step, []), env={"EMITMOD": mod_r}, workers=1, tag="emit-dt")
    g2 = ctx.tlc("MC_Types", cfg("dtw", years, step, []), env={"EMITMOD": mod_w}, workers=1, tag="emit-dtw")
    evs = []
    n = 0
    for c in g1.printed_json("CASE"):
        t = TM if c["kind"] == "time" else DT
        evs.append(tc.ev_conv("g%d" % n, t, uncps(c["txt"])))
        e = tc.ev_fix("gf%d" % n, t, uncps(c["txt"]))
        if e:
            evs.append(e)
        for j, b in enumerate(c["bad"]):
            evs.append(tc.ev_conv("g%dc%d" % (n, j), t, uncps(b)))
        n += 1
        ctx.sample({"text": uncps(c["txt"]), "kind": c["kind"]})
    for c in g2.printed_json("CASE"):
        t = TM if c["kind"] == "time" else DT
        a = {k: c["v"][k] for k in ("t", "kind", "day", "ms", "us", "off", "hasname", "name")}
        evs.append(tc.ev_unconv("h%d" % n, t, a))
        e = tc.ev_rt("hb%d" % n, t, a)
        if e:
            evs.append(e)
        n += 1
    ctx.extra["grid_cases_replayed"] = n
    rnd = random.Random(ctx.seed * 7919 + 9)
    evs += random_events(ctx, rnd, 4000 if quick else 60000)
    ctx.evaluations = len(evs)
    for e in evs[-3:]:
        ctx.sample(describe(e))
    judge(ctx, "Trace_Types", evs)
