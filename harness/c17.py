"""C17 - parsing, converting and writing are pure, repeatable and safe to run in threads.

M: Purity (part 1): the class-level dispatch table that DateTime string conversion re-registers is
   modelled; TLC shows that what a later write observes is independent of the conversion history.
T: workloads built from TLC-simulated documents of all classes, failing inputs and date-time
   conversions are executed (a) in fresh interpreters in two different orders, (b) in this process after
   other workloads, (c) repeated, (d) in 2..16 threads at a 1 microsecond switch interval; every call
   records digests of its input before and after and of its result; all events of all runs form one
   trace which TLC validates against the memo specification (Trace_Purity): same input => same result,
   input unchanged.  Real thread schedules are observed, not enumerated (DESIGN section 8).
"""
import json
import os
import random
import re
import subprocess
import sys
import threading
import xml.etree.ElementTree as ET

import c17_worker as W
import doc_common as dc
import export_schema
import file_common as fc
import gen_common as gc
from core import MachineryError, REPO


def run(ctx):
    from ofxtools.models.base import Aggregate
    quick = ctx.tier == "quick"
    schema, types = export_schema.write(ctx)
    rnd = random.Random(ctx.seed * 982451653 + 17)
    ctx.rule = ("calls = parse / convert / to_etree / serialize of TLC-simulated documents of all classes (valid and invalid) and "
                "type conversions (date-times in several zones, decimals, strings); each executed in two fresh interpreters "
                "(different orders), in-process after other workloads, repeated, and in 2-16 threads; non-trivial = distinct "
                "(operation, input digest) pairs observed in at least two different contexts")
    cfg = ("SPECIFICATION PSpec\nCONSTANTS\n  Instances = {\"d1\", \"d2\", \"t1\"}\n  Values = {\"v1\", \"v2\"}\nINVARIANT HistoryIndependent\n")
    r = ctx.tlc("Purity", cfg, tag="mc")
    if r.violated:
        raise MachineryError("Purity model: %s" % r.violated)
    # ---- the job list
    jobs = []
    gdocs = gc.simulate_docs(ctx, 300 if quick else 3000, maxtok=35, jvms=2 if quick else 8)
    for g in gdocs:
        doc = gc.concretise(g, types, rnd, rich=True, wire=True)
        if rnd.random() < 0.3:
            # vendor / unknown elements, and the renamed FROM / YIELD elements, exercise groom()
            k = rnd.randrange(1, len(doc))
            doc = doc[:k] + [dc.T_leaf(rnd.choice(["INTU.BID", "ZZUNKNOWN"]), "1")] + doc[k:]
        xml = dc.render_text(doc, "xml")
        if rnd.random() < 0.15:
            # a failing input: drop a token of the document
            k = rnd.randrange(1, max(2, len(doc) - 1))
            bad = doc[:k] + doc[k + 1:]
            try:
                xml = dc.render_text(bad, "xml")
                ET.fromstring(xml)
            except Exception:
                xml = dc.render_text(doc, "xml")
        jobs.append(("convert", xml))
        version = rnd.choice([102, 160, 203])
        jobs.append(("to_etree", {"xml": xml}))
        jobs.append(("serialize", {"xml": xml, "version": version, "pretty": rnd.random() < 0.5,
                                   "close": True if version >= 200 else rnd.random() < 0.5}))
        hdr = fc.V1 if version < 200 else fc.V2
        from ofxtools.header import make_header
        body = dc.render_text(doc, "xml" if version >= 200 else rnd.choice(["xml", "sgml"]))
        jobs.append(("parse", list((str(make_header(version)) + body).encode("utf8"))))
        if doc and doc[0]["tag"] == "OFX" or rnd.random() < 0.1:
            data = list((str(make_header(version)) + body).encode("utf8"))
            jobs.append(("treeconvert", {"data": data, "again": False}))
            jobs.append(("treeconvert", {"data": data, "again": True}))
    for text in ["20200102030405.123[-5:EST]", "20200102", "20200102030405[+5.30]", "19991231235959.999[-0.30:X]", "20201301", "x"]:
        jobs.append(("conv", {"type": "DateTime", "text": text}))
    for text in ["030405.123[-5:EST]", "235959", "2460"]:
        jobs.append(("conv", {"type": "Time", "text": text}))
    for v in ["datetime.datetime(2020,1,2,3,4,5,678900,tzinfo=datetime.timezone(datetime.timedelta(minutes=-300),'EST'))",
              "datetime.datetime(1999,12,31,23,59,59,999999,tzinfo=datetime.timezone.utc)"]:
        jobs.append(("unconv", {"type": "DateTime", "value": v}))
    for text, args in (("1.005", [2]), ("1,5", []), ("abc", []), ("-0", [4])):
        jobs.append(("conv", {"type": "Decimal", "text": text, "args": args}))
    jobs.append(("unconv", {"type": "Decimal", "value": "decimal.Decimal('1E+2')"}))
    jobs.append(("conv", {"type": "String", "text": "a &amp; b &lt;c&gt;", "args": [32]}))
    # directed: the renamed children (FROM / YIELD) - groom()/ungroom() must work on copies at every level
    mins, _ = dc.mindocs(ctx)
    from c13 import add_child
    for cls, attr, parents in (("MAIL", "frm", ["MAILRQ"]), ("MFINFO", "yld", ["SECLIST"]), ("STOCKINFO", "yld", ["SECLIST"])):
        a = next(x for x in schema[cls]["attrs"] if x["a"] == attr)
        node = add_child(mins[cls], cls, a, schema, types, mins)
        docs_ = [dc.from_nested(node)]
        for par in parents:
            pa = next((x for x in schema[par]["attrs"] if x["cls"] == cls), None)
            if pa is not None:
                pn = add_child(mins[par], par, pa, schema, types, mins)
                pn[2] = [node if k[0] == cls else k for k in pn[2]]
                docs_.append(dc.from_nested(pn))
        for d_ in docs_:
            xml = dc.render_text(d_, "xml")
            jobs.append(("convert", xml))
            jobs.append(("to_etree", {"xml": xml}))
            jobs.append(("serialize", {"xml": xml, "version": 203, "pretty": False, "close": True}))
    # directed: classes with several repeated children, members in declaration order and reversed within every run
    # (writing must not reorder the instance)
    import c13 as _c13
    import copy as _copy
    for cls in sorted(schema):
        attrs = schema[cls]["attrs"]
        li = [i for i, a in enumerate(attrs) if a["k"] in ("lagg", "lelem")]
        if len(li) < 2 or cls not in mins:
            continue
        node = _copy.deepcopy(mins[cls])
        for a in attrs[li[0]:li[-1] + 1]:
            if a["k"] in ("lagg", "lelem") or (a["k"] == "elem" and not a["req"] and rnd.random() < 0.5):
                try:
                    node = add_child(node, cls, a, schema, types, mins)
                except Exception:
                    pass
        ltags = {a["tag"] for a in attrs if a["k"] in ("lagg", "lelem")}
        rev = _copy.deepcopy(node)
        members = [k for k in rev[2] if k[0] in ltags]
        others = [k for k in rev[2] if k[0] not in ltags]
        rev[2] = others[:0] + [k for k in rev[2]]
        # all members reversed as ONE sequence (legal wherever the reader does not order list members among themselves)
        it = iter(members[::-1])
        rev[2] = [next(it) if k[0] in ltags else k for k in rev[2]]
        # ... and all members next to each other where the first repeated child is declared, interleaved and reversed
        laggs = [a for a in attrs if a["k"] == "lagg" and a["cls"] in mins]
        inter = None
        if len(laggs) >= 2:
            idx = {x["tag"]: i for i, x in enumerate(attrs)}
            base_kids = [k for k in _copy.deepcopy(mins[cls])[2] if k[0] not in ltags]
            mem = [_copy.deepcopy(mins[a["cls"]]) for a in laggs[::-1]] + [_copy.deepcopy(mins[laggs[-1]["cls"]])]
            pos = len([k for k in base_kids if idx.get(k[0], 10 ** 6) < li[0]])
            inter = [cls, None, base_kids[:pos] + mem + base_kids[pos:]]
        for n_ in (node, rev) + ((inter,) if inter else ()):
            try:
                xml = dc.render_text(dc.from_nested(n_), "xml")
                ET.fromstring(xml)
            except Exception:
                continue
            jobs.append(("convert", xml))
            jobs.append(("to_etree", {"xml": xml}))
            jobs.append(("serialize", {"xml": xml, "version": 203, "pretty": False, "close": True}))
    # directed: deeply nested documents (a statement response down to the transaction's security id), for the threaded runs
    def deepen(path, leafcls):
        node = _copy.deepcopy(mins[leafcls])
        for pcls, attr in reversed(path):
            a = next(x for x in schema[pcls]["attrs"] if x["a"] == attr)
            par = add_child(mins[pcls], pcls, a, schema, types, mins)
            par[2] = [node if k[0] == a["tag"] else k for k in par[2]]
            node = par
        return node
    deep = []
    try:
        for k in range(4):
            dnode = deepen([("OFX", "invstmtmsgsrsv1"), ("INVSTMTMSGSRSV1", "invstmttrnrs"), ("INVSTMTTRNRS", "invstmtrs"), ("INVSTMTRS", "invtranlist"),
                            ("INVTRANLIST", rnd.choice(["buystock", "sellstock", "buymf"]))], "BUYSTOCK")
            deep.append(dc.render_text(dc.from_nested(dnode), "xml"))
    except Exception as ex:
        ctx.extra["deep_documents_error"] = repr(ex)[:200]
    deep = []
    for leaf, attr in (("BUYSTOCK", "buystock"), ("SELLSTOCK", "sellstock"), ("BUYMF", "buymf"), ("INCOME", "income")):
        try:
            dnode = deepen([("OFX", "invstmtmsgsrsv1"), ("INVSTMTMSGSRSV1", "invstmttrnrs"), ("INVSTMTTRNRS", "invstmtrs"), ("INVSTMTRS", "invtranlist"),
                            ("INVTRANLIST", attr)], leaf)
            xml = dc.render_text(dc.from_nested(dnode), "xml")
            ET.fromstring(xml)
            deep.append(xml)
        except Exception as ex:
            ctx.extra["deep_documents_error"] = repr(ex)[:200]
    # directed: element trees that did NOT come from the library's parser - indented (white space text on aggregates), as
    # xml.etree or an indenting tool hands them over: converting them may be refused, but never touches the caller's tree
    nind = 0
    for fn_, payload in list(jobs):
        if fn_ == "convert" and isinstance(payload, str) and nind < (40 if quick else 400) and rnd.random() < 0.2:
            try:
                el = ET.fromstring(payload)
                ET.indent(el, space=rnd.choice(["  ", "\t", " "]))
                if rnd.random() < 0.5:
                    for sub in el.iter():
                        if len(sub) == 0 and not (sub.text or "").strip():
                            sub.text = rnd.choice([" ", "\n", None])      # empty aggregates too
                jobs.append(("convert", ET.tostring(el, encoding="unicode")))
                nind += 1
            except Exception:
                pass
    ctx.extra["indented_tree_jobs"] = nind
    ctx.extra["deep_documents"] = len(deep)
    for xml in deep:
        jobs.append(("convert", xml))
        # (a response root with statement wrappers: writing it must leave the instance - every nested one - as it was)
        jobs.append(("to_etree", {"xml": xml}))
        jobs.append(("serialize", {"xml": xml, "version": 203, "pretty": False, "close": True}))
    # directed: documents that convert but cannot be WRITTEN (a decimal that is not a number), next to the same documents with a
    # number: a failing write leaves nothing behind for the following writes
    unwritable = 0
    for fn_, payload in list(jobs):
        if fn_ == "convert" and isinstance(payload, str) and unwritable < (25 if quick else 300):
            m_ = re.search(r"<(TRNAMT|BALAMT|UNITS|UNITPRICE|TOTAL|MKTVAL)>[^<]*</\1>", payload)
            if m_ and rnd.random() < 0.5:
                bad = payload[:m_.start()] + "<%s>NaN</%s>" % (m_.group(1), m_.group(1)) + payload[m_.end():]
                for _ in range(2):
                    jobs.append(("to_etree", {"xml": bad}))
                    jobs.append(("to_etree", {"xml": payload}))
                jobs.append(("serialize", {"xml": bad, "version": 203, "pretty": False, "close": True}))
                unwritable += 1
    ctx.extra["unwritable_document_jobs"] = unwritable
    # directed: a root element the models do not define (a misspelt <OFX_>, a fragment): refused, and the caller's tree untouched
    nroot = 0
    for fn_, payload in list(jobs):
        if fn_ == "convert" and isinstance(payload, str) and nroot < (25 if quick else 300) and rnd.random() < 0.1:
            m_ = re.match(r"<([A-Z0-9_.]+)>", payload)
            if m_ and payload.endswith("</%s>" % m_.group(1)):
                t_ = m_.group(1)
                jobs.append(("convert", "<%s_>" % t_ + payload[len(t_) + 2:-(len(t_) + 3)] + "</%s_>" % t_))
                nroot += 1
    ctx.extra["unknown_root_jobs"] = nroot
    # directed: the same instant written in different zones (equal as values, different as texts), in every order
    # (kept together as a block that every context runs in an order of its own, right after its other jobs: whatever a
    # cache keyed on the VALUE would remember from one zone shows in the next)
    zone_block = []
    for inst_ in ("2020,1,2,3,4,5,678900", "1999,12,31,23,59,59,999999", "2024,2,29,12,0,0,0"):
        for off, nm in ((0, "UTC"), (-300, "EST"), (330, "IST"), (840, "LINT"), (-30, "X")):
            zone_block.append(("unconv", {"type": "DateTime",
                                          "value": "datetime.datetime(%s,tzinfo=datetime.timezone.utc).astimezone(datetime.timezone(datetime.timedelta(minutes=%d),'%s'))" % (inst_, off, nm)}))
            zone_block.append(("unconv", {"type": "Time",
                                          "value": "datetime.datetime(%s,tzinfo=datetime.timezone.utc).astimezone(datetime.timezone(datetime.timedelta(minutes=%d),'%s')).timetz()" % (inst_, off, nm)}))

    def zblock(seed_):
        b = list(zone_block)
        random.Random(seed_).shuffle(b)
        return b
    # date-time heavy documents through the class-level (shared) converters, for the threaded runs
    heavy = []
    for k in range(24):
        trn = []
        for j in range(3):
            d0 = "2020%02d%02d%02d%02d%02d.%03d[%+d:Z]" % (1 + (k + j) % 12, 1 + (3 * k + j) % 28, (k + j) % 24, (7 * k) % 60, (11 * j + k) % 60, (37 * k + j) % 1000, (k % 25) - 12)
            trn.append(["STMTTRN", None, [["TRNTYPE", "DEBIT", []], ["DTPOSTED", d0, []], ["DTUSER", d0[:14], []], ["DTAVAIL", d0[:8], []],
                                          ["TRNAMT", "-%d.%02d" % (k, j), []], ["FITID", "id%d-%d" % (k, j), []]]])
        heavy.append(dc.render_text(dc.from_nested(["BANKTRANLIST", None, [["DTSTART", "20200101", []], ["DTEND", "2020%02d01120000" % (1 + k % 12), []]] + trn]), "xml"))
    for xml in heavy:
        jobs.append(("convert", xml))
        jobs.append(("to_etree", {"xml": xml}))
    # directed: failing inputs of every kind for the classes with a validator of their own, each next to valid documents
    # that use every optional child of the class (a failure must leave nothing behind that a later document sees)
    import c04
    customs = [c for c in sorted(schema) if schema[c]["custom_validate"] and c in mins]
    others = rnd.sample([c for c in sorted(schema) if c not in customs and c in mins], 10 if quick else 120)
    directed = []       # the jobs of the classes with their own validator: always part of the fresh-interpreter runs
    nvar = 0
    for cls in customs + others:
        mine = []
        for lab, exp, node, routes in c04.variants(cls, mins[cls], schema, types, mins, rnd):
            try:
                xml = dc.render_text(dc.from_nested(node), "xml")
                ET.fromstring(xml)
            except Exception:
                continue
            mine.append(("convert", xml))
        for a in schema[cls]["attrs"]:
            if a["k"] in ("sub", "lagg", "elem", "lelem") and not a["req"]:
                try:
                    xml = dc.render_text(dc.from_nested(add_child(mins[cls], cls, a, schema, types, mins)), "xml")
                    ET.fromstring(xml)
                except Exception:
                    continue
                mine.append(("convert", xml))
                mine.append(("to_etree", {"xml": xml}))
        nvar += len(mine)
        jobs += mine
        if cls in customs:
            directed += mine
    ctx.extra["directed_variant_jobs"] = nvar
    ctx.extra["classes_with_own_validator"] = customs
    rnd.shuffle(jobs)
    evs = []

    def add(events):
        for e in events:
            e["id"] = "e%d" % len(evs)
            evs.append(e)

    # (a) fresh interpreters, two different orders, on a subset
    sub = jobs[: (150 if quick else 1500)] + directed
    rnd.shuffle(sub)
    # ... and once after a prelude that uses the abstract base classes before any concrete class
    for name, order in (("fresh-forward", sub + zblock(1)), ("fresh-reverse", list(reversed(sub)) + zblock(2)),
                        ("fresh-bases-first", [("prelude", "bases")] + sub + zblock(3))):
        jf = os.path.join(ctx.work, name + ".job.json")
        of = os.path.join(ctx.work, name + ".out.json")
        json.dump(order, open(jf, "w"))
        p = subprocess.run([sys.executable, os.path.join(os.path.dirname(__file__), "c17_worker.py"), REPO, jf, of, name],
                           capture_output=True, text=True, timeout=900,
                           env=dict(os.environ, PYTHONHASHSEED="0", PYTHONDONTWRITEBYTECODE="1"))
        if p.returncode != 0:
            raise MachineryError("worker failed: " + p.stderr[-1500:])
        add(json.load(open(of)))
    # (b) in this process (which has already run other checks' imports), (c) repeated
    for rep in range(2):
        order = list(jobs)
        rnd.shuffle(order)
        order += zblock(10 + rep)
        add([W.run_call(fn, payload, "inprocess-%d" % rep) for fn, payload in order])
    # (d) threads; whole files through OFXTree.parse in every thread at the same time
    parse_heavy = [j for j in jobs if j[0] == "parse"][:12]
    old = sys.getswitchinterval()
    sys.setswitchinterval(1e-6)
    try:
        for nthreads in ([2, 8] if quick else [2, 4, 8, 16]):
            results = [[] for _ in range(nthreads)]
            barrier = threading.Barrier(nthreads)

            def work(k, nthreads=nthreads):
                mine = list(jobs[: (200 if quick else 1200)]) + parse_heavy * (8 if quick else 30) \
                    + [("convert", x) for x in deep] * (12 if quick else 40) \
                    + [("convert", x) for x in heavy] * (6 if quick else 20) \
                    + [("to_etree", {"xml": x}) for x in heavy] * (2 if quick else 6)
                random.Random(k).shuffle(mine)
                barrier.wait()
                for fn, payload in mine:
                    results[k].append(W.run_call(fn, payload, "threads-%d" % nthreads))
            ts = [threading.Thread(target=work, args=(k,)) for k in range(nthreads)]
            for t in ts:
                t.start()
            for t in ts:
                t.join()
            for res in results:
                add(res)
    finally:
        sys.setswitchinterval(old)
    ctx.evaluations = len(evs)
    seen = {}
    for e in evs:
        seen.setdefault((e["fn"], e["i"]), set()).add(e["ctx"])
    for k, v in seen.items():
        if len(v) >= 2:
            ctx.nontrivial.add(k)
    ctx.extra["distinct_inputs"] = len(seen)
    ctx.extra["contexts"] = sorted({e["ctx"] for e in evs})
    for e in evs[:3]:
        ctx.sample(e)
    mism = ctx.validate_trace("Trace_Purity", evs, shards=1, timeout=1800)
    byid = {e["id"]: e for e in evs}
    for eid, clauses in mism.items():
        e = byid[eid]
        for cl in clauses:
            ctx.fail({"clause": cl.split(" ")[0], "detail": cl, "fn": e["fn"], "ctx": e["ctx"], "what": "%s %s" % (cl, e)})
