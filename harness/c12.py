"""C12 - headers round-trip for every supported version; invalid headers are refused.

M: MC_Header: every single-field corruption, omission and transposition of a generated header
   is refused by the reference reading; every generated header parses back to its fields.
G: the corrupted files emitted by TLC are fed to the real parse_header; make_header and the
   constructors are driven over all versions x security x UID classes x foreign values.
T: every recorded call is judged by TLC (Trace_Header): kind, parse-back equality, refusal with
   OFXHeaderError and never a header object.
"""
import random

import hdr_common as hc
from core import MachineryError

CFG = "SPECIFICATION Spec\n%s\nCONSTRAINT Emit\n"
INVS = ["LayoutParses", "CorruptRefused", "CorruptMostlyRefused"]
BODY = b"<OFX><A>x</A></OFX>"


def run(ctx):
    from ofxtools import header
    quick = ctx.tier == "quick"
    ctx.rule = ("every version 0..999 (all three-digit v1 versions, all 2xx, others refused) x security x UID classes through "
                "make_header/str/parse_header; every single-field corruption, omission and transposition of v1 and v2 headers "
                "(TLC-generated); constructors with one foreign field; non-trivial = distinct (operation, version class, outcome)")
    r = ctx.tlc("MC_Header", CFG % "\n".join("INVARIANT " + i for i in INVS), env={"EMITMOD": 0}, tag="mc")
    if r.violated:
        raise MachineryError("model-level theorem violated in MC_Header: %s" % r.violated)
    g = ctx.tlc("MC_Header", CFG % "", env={"EMITMOD": 1000003}, workers=1, tag="emit")   # compact layouts only
    evs = []
    n = 0
    for c in g.printed_json("CASE"):
        evs.append(hc.ev_parse("g%d" % n, bytes(c["file"])))
        for j, b in enumerate(c["bad"]):
            evs.append(hc.ev_parse("g%dx%d" % (n, j), bytes(b)))
            ctx.nontrivial.add(("corrupt", c["kind"], j))
        n += 1
    ctx.extra["grid_cases_replayed"] = n
    rnd = random.Random(ctx.seed * 179424673 + 12)
    uids = ["NONE", "a" * 36, "0-_Z", "b" * 37, "", "has space", "é", "x" * 35]
    secs = ["NONE", "TYPE1", "TYPE2", "none", ""]
    versions = list(range(100, 200)) + [200, 201, 202, 203, 210, 211, 220] + \
        [0, 1, 99, 204, 209, 212, 219, 221, 230, 299, 300, 345, 999, 1000, 1020, 2000, 10200]
    vtexts = [str(v) for v in versions] + ["abc", "1x2", "", "1.0", "-102", " 102"]
    k = 0
    for v in vtexts:
        combos = [("NONE", "NONE", "NONE"), ("TYPE1", "a" * 36, "0-_Z")]
        for _ in range(2 if quick else 8):
            combos.append((rnd.choice(secs), rnd.choice(uids), rnd.choice(uids)))
        for sec, ou, nu in combos:
            if sec == "" or ou == "" or nu == "":
                continue     # empty means "default" to the library; not a foreign value
            for asint in (False, True):
                arg = v
                if asint:
                    try:
                        arg = int(v)
                    except ValueError:
                        continue
                    if str(arg) != v:
                        continue
                e = hc.ev_make("m%d" % k, arg, sec, ou, nu)
                evs.append(e)
                k += 1
                ctx.nontrivial.add(("make", v if len(v) < 4 else "long", sec, len(ou), len(nu), e["out"]["st"]))
                if e["out"]["st"] == "ok":
                    # the generated text, followed by a body, through the real parser
                    from core import uncps
                    text = uncps(e["out"]["text"])
                    evs.append(hc.ev_parse("mp%d" % k, text.encode("ascii", "replace") + BODY))
    # constructors with one foreign field
    base1 = {"version": "102", "ofxheader": "100", "data": "OFXSGML", "security": "NONE", "encoding": "USASCII",
             "charset": "1252", "compression": "NONE", "oldfileuid": "NONE", "newfileuid": "NONE"}
    base2 = {"version": "203", "ofxheader": "200", "security": "NONE", "oldfileuid": "NONE", "newfileuid": "NONE"}
    # (foreign tokens include proper fragments of the valid ones and tokens that are valid for ANOTHER field)
    dom = {"data": ["OFXSGML", "OFXXML", "ofxsgml", "OFX", "SGML", "OFXSGM", "FXSGML", "S", "NONE", "USASCII"],
           "security": ["NONE", "TYPE1", "TYPE2", "NON", "TYPE", "1", "OFXSGML", "USASCII"],
           "encoding": ["USASCII", "UNICODE", "UTF-8", "UTF8", "LATIN1", "ASCII", "UNI", "U", "NONE", "1252"],
           "charset": ["ISO-8859-1", "1252", "NONE", "UTF-8", "8859-1", "ISO", "125", "2", "USASCII", "UNICODE"],
           "compression": ["NONE", "GZIP", "N", "NON", "ONE", "O", "USASCII", "TYPE1"], "ofxheader": ["100", "200", "101", "x", "0", "00", "000", "1", "99", "201", "0100", "0200", "1_00", "2_00", "10_0", "+100", " 100", "1e2"],
           "version": ["102", "103", "151", "160", "199", "100", "1020", "1x", "200", "203", "220", "204", "221", "2030", "0", "000", "0102", "1_02", "10_2", "2_2_0", "2_03", "+102", "1 02", "2e2"],
           "oldfileuid": ["NONE", "a" * 36, "a" * 37], "newfileuid": ["NONE", "z" * 36, "z" * 37]}
    for kind, base in ((1, base1), (2, base2)):
        for fld in base:
            for val in dom[fld]:
                f = dict(base)
                f[fld] = val
                e = hc.ev_ctor("k%d" % k, kind, f)
                evs.append(e)
                k += 1
                ctx.nontrivial.add(("ctor", kind, fld, val, e["out"]["st"]))
                # the same fields as a file, through the real parser
                if kind == 1:
                    head = "".join("%s:%s\r\n" % (n_.upper(), f[n_]) for n_ in ("ofxheader", "data", "version", "security", "encoding", "charset",
                                                                               "compression", "oldfileuid", "newfileuid")) + "\r\n"
                else:
                    head = ('<?xml version="1.0" encoding="UTF-8" standalone="no"?>\r\n<?OFX ' +
                            " ".join('%s="%s"' % (n_.upper(), f[n_]) for n_ in ("ofxheader", "version", "security", "oldfileuid", "newfileuid")) + "?>\r\n")
                e = hc.ev_parse("kp%d" % k, head.encode("ascii") + BODY)
                evs.append(e)
                ctx.nontrivial.add(("file", kind, fld, val, e["out"]["st"]))
    ctx.exhaustive = True
    ctx.evaluations = len(evs)
    for e in evs[:1] + evs[-2:]:
        ctx.sample(hc.describe(e))
    hc.judge(ctx, evs)
