"""Executes a list of calls in THIS interpreter (used both in-process and as a fresh subprocess by c17):
reads a JSON job (list of [fn, payload]) and writes one event per call."""
import hashlib
import io
import json
import sys
import warnings
import xml.etree.ElementTree as ET


def dg(b):
    if isinstance(b, str):
        b = b.encode("utf8", "surrogatepass")
    return hashlib.sha1(b).hexdigest()[:16]


def tree_digest(el):
    return dg(ET.tostring(el, encoding="unicode"))


def model_digest(inst):
    from ofxtools.models.base import Aggregate

    def proj(x):
        if isinstance(x, Aggregate):
            return [type(x).__name__, sorted((k, proj(v)) for k, v in x.__dict__.items()), [proj(m) for m in x]]
        return repr(x)
    return dg(json.dumps(proj(inst), sort_keys=True, default=repr))


def run_call(fn, payload, ctx):
    """-> event dict"""
    from ofxtools.Parser import OFXTree, TreeBuilder
    from ofxtools.models.base import Aggregate
    from ofxtools import Types
    state = {}
    with warnings.catch_warnings():
        warnings.simplefilter("ignore")
        try:
            if fn == "prelude":
                # an "earlier workload" on the abstract base classes: every class that has subclasses is asked for its
                # class-level mappings and instantiated, before any concrete class is used
                import ofxtools.models as M
                todo, seen_ = [Aggregate], set()
                while todo:
                    c = todo.pop()
                    if c in seen_:
                        continue
                    seen_.add(c)
                    subs = c.__subclasses__()
                    todo += subs
                    if subs:
                        for nm in ("spec", "elements", "subaggregates", "listaggregates", "listelements", "unsupported",
                                   "spec_no_listaggregates", "_superdict"):
                            try:
                                getattr(c, nm)
                            except Exception:
                                pass
                        try:
                            c().to_etree()
                        except Exception:
                            pass
                return {"fn": fn, "i": dg(payload), "o": "done", "iafter": dg(payload), "ctx": ctx}
            if fn == "parse":
                data = bytes(payload)
                i = dg(data)
                src = io.BytesIO(data)
                t = OFXTree()
                t.parse(src)
                o = tree_digest(t.getroot())
                ia = dg(src.getvalue())
            elif fn == "treeconvert":
                # OFXTree.convert() of a parsed file; with again=True the tree is converted a second time after the FIRST
                # result was modified by its owner - the second result depends only on the tree, which nobody touched
                data = bytes(payload["data"])
                t = OFXTree()
                t.parse(io.BytesIO(data))
                i = tree_digest(t.getroot())
                inst = t.convert()
                if payload.get("again"):
                    def scribble(x):
                        for k, v in list(x.__dict__.items()):
                            if isinstance(v, Aggregate):
                                scribble(v)
                            elif isinstance(v, str):
                                x.__dict__[k] = v + "~"
                        while len(x) > 0 and not isinstance(x[-1], Aggregate):
                            x.pop()
                        for m in x:
                            if isinstance(m, Aggregate):
                                scribble(m)
                    scribble(inst)
                    inst = t.convert()
                o = model_digest(inst)
                ia = tree_digest(t.getroot())
            elif fn == "convert":
                el = ET.fromstring(payload)
                i = tree_digest(el)
                state["el"], state["i"] = el, i
                inst = Aggregate.from_etree(el)
                o = model_digest(inst)
                ia = tree_digest(el)
            elif fn in ("to_etree", "serialize"):
                el = ET.fromstring(payload["xml"])
                inst = Aggregate.from_etree(el)
                i = model_digest(inst)
                if fn == "to_etree":
                    o = tree_digest(inst.to_etree())
                else:
                    from ofxtools.Client import OFXClient
                    c = OFXClient("https://x.invalid", version=payload["version"], prettyprint=payload["pretty"],
                                  close_elements=payload["close"])
                    o = dg(c.serialize(inst, newfileuid="NONE"))
                    i = dg(i + json.dumps([payload["version"], payload["pretty"], payload["close"]]))
                    ia = dg(model_digest(inst) + json.dumps([payload["version"], payload["pretty"], payload["close"]]))
                    return {"fn": fn, "i": i, "o": o, "iafter": ia, "ctx": ctx}
                ia = model_digest(inst)
            elif fn == "conv":
                el = getattr(Types, payload["type"])(*payload.get("args", []))
                i = dg(json.dumps(payload, sort_keys=True))
                o = dg(repr(el.convert(payload["text"])))
                ia = i
            elif fn == "unconv":
                import datetime
                import decimal
                el = getattr(Types, payload["type"])(*payload.get("args", []))
                v = eval(payload["value"], {"datetime": datetime, "decimal": decimal})
                i = dg(json.dumps(payload, sort_keys=True))
                o = dg(repr(el.unconvert(v)))
                ia = dg(json.dumps(dict(payload, value=repr(v)) if False else payload, sort_keys=True))
            else:
                raise ValueError(fn)
        except Exception as e:
            if fn == "parse":
                i = dg(bytes(payload)); ia = i
            elif fn == "treeconvert":
                i = dg(bytes(payload["data"])); ia = i
            elif fn == "convert":
                if state.get("el") is not None:
                    # the conversion failed: the caller's tree must be what it was
                    i, ia = state["i"], tree_digest(state["el"])
                else:
                    el = ET.fromstring(payload); i = tree_digest(el); ia = i
            elif fn in ("to_etree", "serialize"):
                i = dg(json.dumps(payload, sort_keys=True)); ia = i
            else:
                i = dg(json.dumps(payload, sort_keys=True)); ia = i
            o = "EXC:" + type(e).__name__
    return {"fn": fn, "i": i, "o": o, "iafter": ia, "ctx": ctx}


def main():
    repo, jobfile, outfile, ctx = sys.argv[1:5]
    sys.path.insert(0, repo)
    job = json.load(open(jobfile))
    evs = [run_call(fn, payload, ctx) for fn, payload in job]
    json.dump(evs, open(outfile, "w"))


if __name__ == "__main__":
    main()
