"""Abstract documents (typed token lists) <-> the real model: building element trees,
converting them through Aggregate.from_etree or keyword construction, projecting instances."""
import warnings
import xml.etree.ElementTree as ET

import types_common as tc
from core import cps, uncps


TYPES = []      # type table of the exported schema (set by export_schema.write)


def T_open(tag, vendor=None):
    return {"e": "open", "tag": tag, "vendor": ("." in tag) if vendor is None else vendor, "text": []}


def T_leaf(tag, text, vendor=None):
    return {"e": "leaf", "tag": tag, "vendor": ("." in tag) if vendor is None else vendor, "text": cps(text)}


T_CLOSE = {"e": "close", "tag": "", "vendor": False, "text": []}


def to_etree(doc):
    """token list -> ET.Element (root)"""
    root = None
    stack = []
    for t in doc:
        if t["e"] == "close":
            stack.pop()
            continue
        el = ET.Element(t["tag"]) if not stack else ET.SubElement(stack[-1], t["tag"])
        if root is None:
            root = el
        if t["e"] == "open":
            stack.append(el)
        else:
            el.text = uncps(t["text"])
    return root


def to_nested(doc):
    """token list -> nested [tag, text|None, kids]"""
    root = None
    stack = []
    for t in doc:
        if t["e"] == "close":
            stack.pop()
            continue
        node = [t["tag"], uncps(t["text"]) if t["e"] == "leaf" else None, []]
        if stack:
            stack[-1][2].append(node)
        else:
            root = node
        if t["e"] == "open":
            stack.append(node)
    return root


def from_nested(node):
    tag, text, kids = node
    if text is not None:
        return [T_leaf(tag, text)]
    out = [T_open(tag)]
    for k in kids:
        out += from_nested(k)
    out.append(T_CLOSE)
    return out


def project_inst(inst, schema, extra=False):
    """model instance -> abstract instance {cls, els, mem}; with extra also the attributes the instance carries
    that its class does not declare (C16: TRNUID / CLTCOOKIE stapled onto statements)"""
    from ofxtools.models.base import Aggregate
    cls = type(inst).__name__
    els = []
    for a in schema[cls]["attrs"]:
        if a["k"] in ("elem", "sub"):
            v = getattr(inst, a["a"])
            if v is None:
                continue
            els.append([a["a"], project_inst(v, schema, extra) if isinstance(v, Aggregate) else tc.project(v)])
    mem = [project_inst(m, schema, extra) if isinstance(m, Aggregate) else tc.project(m) for m in inst]
    if extra:
        declared = {a["a"] for a in schema[cls]["attrs"]}
        xs = [[k, {"set": v is not None, "v": tc.project(v) if v is not None and not isinstance(v, Aggregate) else tc.project("")}]
              for k, v in sorted(vars(inst).items()) if k not in declared]
        return {"cls": cls, "els": els, "mem": mem, "extra": xs}
    return {"cls": cls, "els": els, "mem": mem}


def native(text):
    """a caller-side Python value for a text, where the text has an obvious native spelling"""
    import decimal
    import re
    if re.fullmatch(r"[+-]?[0-9]{1,30}", text):
        return int(text)
    if re.fullmatch(r"[+-]?[0-9]+\.[0-9]+", text):
        return decimal.Decimal(text)
    return text


def build_kw(node, schema, nat=False, none=False):
    """keyword-construction route: builds the instance bottom-up with Cls(*members, **children);
    leaf values are passed as texts (the converters accept them) or, with nat, as native values"""
    import ofxtools.models as M
    tag, text, kids = node
    cls = getattr(M, tag)
    attrs = {a["tag"]: a for a in schema[tag]["attrs"]}
    args = []
    kwargs = {}
    for k in kids:
        a = attrs.get(k[0])
        if a is None:
            name = k[0].lower()
            val = k[1] if k[1] is not None else build_kw(k, schema, nat, none) if hasattr(M, k[0]) else None
            if name in kwargs:
                raise KwRouteNotApplicable("duplicate keyword")
            kwargs[name] = val
            continue
        if a["k"] == "unsup":
            continue
        val = k[1] if k[1] is not None else build_kw(k, schema, nat, none)
        if nat and k[1] is not None and a["k"] in ("elem", "lelem"):
            val = native(k[1])
            if a["ty"] and isinstance(val, int) and TYPES[int(a["ty"][1:])]["k"] not in ("int", "dec"):
                val = k[1]
            if a["ty"] and not isinstance(val, str) and TYPES[int(a["ty"][1:])]["k"] == "dec":
                import decimal
                val = decimal.Decimal(k[1])
        if a["k"] in ("lagg", "lelem"):
            args.append(val)
        else:
            if a["a"] in kwargs:
                raise KwRouteNotApplicable("duplicate keyword")
            kwargs[a["a"]] = val
    if none:
        # a caller may spell out absent children as None
        for a in schema[tag]["attrs"]:
            if a["k"] in ("elem", "sub") and a["a"] not in kwargs:
                kwargs[a["a"]] = None
    return cls(*args, **kwargs)


class KwRouteNotApplicable(Exception):
    pass


def render_text(doc, style):
    """wire text of a token list whose leaf texts are already wire-safe; style xml | sgml"""
    out = []
    stack = []
    for t in doc:
        if t["e"] == "open":
            out.append("<%s>" % t["tag"])
            stack.append(t["tag"])
        elif t["e"] == "close":
            out.append("</%s>" % stack.pop())
        else:
            text = uncps(t["text"])
            if style == "cdata" and "]]>" not in text:
                # a CDATA section hands its content over verbatim; white space between it and the tags is layout
                k = (len(text) + len(out)) % 5
                text = ["", " ", "\n", "\r\n  ", ""][k] + "<![CDATA[" + text + "]]>" + ["", "", "\n", " ", "\t"][k]
            out.append("<%s>%s" % (t["tag"], text))
            if style in ("xml", "cdata"):
                out.append("</%s>" % t["tag"])
        if style == "sgml":
            out.append("\r\n")
    return "".join(out)


def pad_strings(doc, schema, types, rnd, p=0.5, avoid=None):
    """a copy of the token list in which character-data leaves get white space at their edges (kept by from_etree and
    by a CDATA section; only plain wire text is trimmed); None if the document has no such leaf"""
    out = []
    stack = []
    changed = False
    for t in doc:
        t = dict(t)
        if t["e"] == "open":
            stack.append(t["tag"])
        elif t["e"] == "close":
            stack.pop()
        elif stack and stack[-1] in schema:
            a = next((x for x in schema[stack[-1]]["attrs"] if x["tag"] == t["tag"] and x["k"] in ("elem", "lelem")), None)
            if a is not None and a["ty"] and types[int(a["ty"][1:])]["k"] in ("str", "nag") and rnd.random() < p \
                    and not (avoid and avoid in uncps(t["text"])):
                pad = rnd.choice([" ", "  ", "\n", "\t ", "\r\n"])
                how = rnd.randrange(3)
                t["text"] = (cps(pad) if how != 1 else []) + list(t["text"]) + (cps(pad) if how != 0 else [])
                changed = True
        out.append(t)
    return out if changed else None


def ev_doc(eid, doc, schema, route="etree", label="", expect="", twin=None):
    """run one construction attempt on the real code"""
    from ofxtools.models.base import Aggregate
    nwarn = 0
    with warnings.catch_warnings(record=True) as w:
        warnings.simplefilter("always")
        try:
            if route == "etree":
                inst = Aggregate.from_etree(to_etree(doc))
            elif route in ("xml", "sgml", "cdata"):
                from ofxtools.Parser import TreeBuilder
                b = TreeBuilder()
                b.feed(render_text(doc, route))
                inst = Aggregate.from_etree(b.close())
            else:
                inst = build_kw(to_nested(doc), schema, nat=(route == "kwnative"), none=(route == "kwnone"))
            out = {"ok": True, "inst": project_inst(inst, schema), "exc": ""}
        except KwRouteNotApplicable:
            return None
        except Exception as e:
            out = {"ok": False, "inst": {"cls": "", "els": [], "mem": []}, "exc": type(e).__name__ + ": " + str(e)[:120]}
        nwarn = len(w)
    out["warn"] = nwarn
    return {"id": eid, "op": "doc", "route": route, "doc": doc, "out": out, "label": label, "expect": expect,
            "hastwin": twin is not None, "twin": twin if twin is not None else {"cls": "", "els": [], "mem": []}}


def doc_text(doc):
    """compact printable form of a document"""
    out = []
    for t in doc:
        if t["e"] == "open":
            out.append("<%s>" % t["tag"])
        elif t["e"] == "leaf":
            out.append("<%s>%s" % (t["tag"], uncps(t["text"])))
        else:
            out.append("</>")
    return "".join(out)


def judge(ctx, evs, module="Trace_Doc"):
    mism = ctx.validate_trace(module, evs)
    byid = {e["id"]: e for e in evs}
    for eid, clauses in mism.items():
        e = byid[eid]
        root = e["doc"][0]["tag"] if e["doc"] else ""
        for cl in clauses:
            ctx.fail({"clause": cl.split(" [")[0], "detail": cl, "route": e["route"], "root": root, "label": e["label"],
                      "doc": doc_text(e["doc"])[:600], "exc": e["out"].get("exc", ""),
                      "what": "%s route=%s doc=%s exc=%s" % (cl, e["route"], doc_text(e["doc"])[:300], e["out"].get("exc", ""))})
    return mism


def etree_to_doc(el):
    """ET.Element -> token list (what the library wrote)"""
    if len(el) == 0 and el.text:
        return [T_leaf(el.tag, el.text)]
    out = [T_open(el.tag)]
    for k in el:
        out += etree_to_doc(k)
    out.append(T_CLOSE)
    return out


def mindocs(ctx):
    """MinDoc(c) of every class, computed by TLC (MC_Schema Emit) -> {cls: nested}"""
    cfg = "SPECIFICATION Spec\nINVARIANT MinDocAccepted\nCONSTRAINT Emit\n"
    r = ctx.tlc("MC_Schema", cfg, workers=1, tag="mindoc")
    out = {}
    for c in r.printed_json("MIN"):
        out[c["cls"]] = to_nested(c["doc"])
    return out, r
