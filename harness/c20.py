"""C20 - security identifier check digits.

M: MC_SecIds: completing a base validates, any other check character fails, wrong lengths and
   unknown prefixes fail, single-digit errors are detected, converted ISINs validate and embed
   the original - over all (position, character) x (position, character) pairs.
G: TLC emits bases of that grid; T: the real utils functions are called on them, on seeded
   random bases over the full alphabets, on every replacement of the check character, every
   numbering-agency prefix, and (thorough) on all 10^6 digits-only SEDOL bases; TLC recomputes
   every result from the published algorithms (Trace_SecIds).
"""
import random

from core import cps, uncps, tla_cps, MachineryError

CFG = "SPECIFICATION Spec\nCONSTANT Adjacent = %s\n%s\nCONSTRAINT Emit\n"
INVS = ["CompletedValidates", "CheckIsDigit", "WrongCheckFails", "WrongLengthFails",
        "SingleDigitErrorDetected", "ConvertedValidates", "UnknownPrefixFails"]
CUSIP_ALPHA = "0123456789ABCDEFGHIJKLMNOPQRSTUVWXYZ*@#"
ALNUM = "0123456789ABCDEFGHIJKLMNOPQRSTUVWXYZ"
SEDOL_ALPHA = "0123456789BCDFGHJKLMNPQRSTVWXYZ"


def call(fn, *a):
    try:
        return True, fn(*a)
    except Exception:
        return False, None


def run(ctx):
    from ofxtools import utils, lib
    quick = ctx.tier == "quick"
    agencies = sorted(lib.NUMBERING_AGENCIES.keys())
    two = [a for a in agencies if len(a) == 2]
    ctx.write("AgencyData.tla", "---- MODULE AgencyData ----\nLibAgencies == {%s}\n====\n"
              % ", ".join(tla_cps(a) for a in agencies))
    ctx.rule = ("grid = TLC states of MC_SecIds (two positions varied over the whole alphabet); random = seeded bases over "
                "the full alphabets; every base is completed, validated, its check character replaced by every other "
                "character, converted to ISIN; non-trivial = distinct (function, outcome) x identifier")
    r = ctx.tlc("MC_SecIds", CFG % ("TRUE" if quick else "FALSE", "\n".join("INVARIANT " + i for i in INVS)),
                env={"EMITMOD": 0}, tag="mc")
    if r.violated:
        raise MachineryError("model-level theorem violated in MC_SecIds: %s" % r.violated)
    g = ctx.tlc("MC_SecIds", CFG % ("TRUE", ""), env={"EMITMOD": 7 if quick else 2}, workers=1, tag="emit")
    rnd = random.Random(ctx.seed * 15485863 + 20)
    bases = {"cusip": [], "sedol": [], "isin": []}
    for c in g.printed_json("CASE"):
        bases[c["k"]].append(uncps(c["base"]))
    ngrid = sum(len(v) for v in bases.values())
    ctx.extra["grid_cases_replayed"] = ngrid
    nr = 600 if quick else 20000
    for _ in range(nr):
        bases["cusip"].append("".join(rnd.choice(CUSIP_ALPHA if rnd.random() < 0.3 else ALNUM) for _ in range(8)))
        bases["sedol"].append("".join(rnd.choice(SEDOL_ALPHA) for _ in range(6)))
        bases["isin"].append(rnd.choice(two) + "".join(rnd.choice(ALNUM) for _ in range(9)))
    evs = []

    def add(op, **kw):
        e = dict(kw, id="e%d" % len(evs), op=op)
        evs.append(e)
        ctx.nontrivial.add((op, str(kw.get("out")), str(kw.get("base") or kw.get("id_"))))
        return e

    def outs(ok, r):
        return {"ok": ok, "s": cps(r) if ok and isinstance(r, str) else []}

    def outb(ok, r):
        return {"ok": ok, "b": bool(r) if ok else False}

    for i, b in enumerate(bases["cusip"]):
        ok, chk = call(utils.cusip_checksum, b)
        evs.append({"id": "c%d" % i, "op": "cusip_checksum", "base": cps(b), "out": outs(ok, chk)})
        if not ok:
            continue
        full = b + chk
        if i % 7 == 0:
            # garbage met earlier (illegal characters at any position: refused or raising - not judged) leaves nothing behind
            # (ONE call per occasion: whatever it consumed or memoised stays as it is for the identifiers that follow)
            g_ = ("-84670207", "08-670207", "é84670207", "0846-0207", "08467 207", "-")[(i // 7) % 6]
            call(utils.validate_cusip, g_)
        evs.append({"id": "cv%d" % i, "op": "validate_cusip", "id_": full, "out": outb(*call(utils.validate_cusip, full))})
        thin = i % (1 if i < ngrid else 5) == 0
        for ch in (CUSIP_ALPHA if thin else rnd.sample(CUSIP_ALPHA, 4)):
            if ch != chk:
                x = b + ch
                evs.append({"id": "cx%d%s" % (i, ord(ch)), "op": "validate_cusip", "id_": x, "out": outb(*call(utils.validate_cusip, x))})
        for k_, x in enumerate((b, full + "0", full[1:], full + "\n", full + " ", "\n" + full, full + "\r\n", full + "\t")):
            # (wrong lengths include a valid identifier followed / preceded by a line break or a blank)
            evs.append({"id": "cl%d_%d" % (i, k_), "op": "validate_cusip", "id_": x, "out": outb(*call(utils.validate_cusip, x))})
        nat = rnd.choice(two + ["", "ZZ", "U"])
        evs.append({"id": "ci%d" % i, "op": "cusip2isin", "id_": full, "nation": cps(nat or "US"),
                    "out": outs(*call(utils.cusip2isin, full, nat or None))})
        bad = b + rnd.choice([c for c in "0123456789" if c != chk])
        evs.append({"id": "cj%d" % i, "op": "cusip2isin", "id_": bad, "nation": cps("US"),
                    "out": outs(*call(utils.cusip2isin, bad))})
    for i, b in enumerate(bases["sedol"]):
        ok, chk = call(utils.sedol_checksum, b)
        evs.append({"id": "s%d" % i, "op": "sedol_checksum", "base": cps(b), "out": outs(ok, chk)})
        if not ok:
            continue
        full = b + chk
        nat = rnd.choice(two + [""])
        evs.append({"id": "si%d" % i, "op": "sedol2isin", "id_": full, "nation": cps(nat or "GB"),
                    "out": outs(*call(utils.sedol2isin, full, nat or None))})
        bad = b + rnd.choice([c for c in "0123456789" if c != chk])
        evs.append({"id": "sj%d" % i, "op": "sedol2isin", "id_": bad, "nation": cps("GB"),
                    "out": outs(*call(utils.sedol2isin, bad))})
    for i, b in enumerate(bases["isin"]):
        ok, chk = call(utils.isin_checksum, b)
        evs.append({"id": "i%d" % i, "op": "isin_checksum", "base": cps(b), "out": outs(ok, chk)})
        if not ok:
            continue
        full = b + chk
        evs.append({"id": "iv%d" % i, "op": "validate_isin", "id_": full, "out": outb(*call(utils.validate_isin, full))})
        for ch in (ALNUM if i % 5 == 0 else rnd.sample(ALNUM, 4)):
            if ch != chk:
                x = b + ch
                evs.append({"id": "ix%d%s" % (i, ord(ch)), "op": "validate_isin", "id_": x, "out": outb(*call(utils.validate_isin, x))})
        for k_, x in enumerate((b, full + "0", full[1:], "ZZ" + full[2:], "U" + full[1:], full.lower()[:2] + full[2:], full + "\n", full + " ",
                                "\n" + full, full + "\r\n")):
            evs.append({"id": "il%d_%d" % (i, k_), "op": "validate_isin", "id_": x, "out": outb(*call(utils.validate_isin, x))})
    # every numbering agency prefix
    for j, a in enumerate(agencies):
        b = (a + "000000000000")[:11]
        ok, chk = call(utils.isin_checksum, b)
        evs.append({"id": "a%d" % j, "op": "isin_checksum", "base": cps(b), "out": outs(ok, chk)})
        if ok:
            evs.append({"id": "av%d" % j, "op": "validate_isin", "id_": b + chk, "out": outb(*call(utils.validate_isin, b + chk))})
    # exhaustive digits-only subspaces
    nblocks = 20 if quick else 1000
    for k in range(nblocks):
        start = k * 1000 if not quick else rnd.randrange(1000) * 1000
        ok, o = call(lambda: [ord(utils.sedol_checksum("%06d" % n)) for n in range(start, start + 1000)])
        if not ok:
            o = [0] * 1000
        evs.append({"id": "sb%d" % k, "op": "sedol_block", "start": start, "outs": o})
    for k in range(10 if quick else 200):
        prefix = "%04d" % rnd.randrange(10000) if k % 2 else "".join(rnd.choice(CUSIP_ALPHA) for _ in range(4))
        start = rnd.randrange(9) * 1000
        ok, o = call(lambda: [ord(utils.cusip_checksum(prefix + "%04d" % n)) for n in range(start, start + 1000)])
        if not ok:
            o = [0] * 1000
        evs.append({"id": "cb%d" % k, "op": "cusip_block", "prefix": cps(prefix), "start": start, "outs": o})
    if not quick:
        ctx.extra["sedol_digits_only_exhaustive"] = True
    for e in evs:   # the spec calls the identifier `id`; the event id is `id`, so rename
        if "id_" in e:
            e["ident"] = cps(e.pop("id_"))
    for e in evs:
        ctx.nontrivial.add((e["op"], str(e.get("base") or e.get("ident") or e.get("start"))))
    ctx.evaluations = len(evs) + (nblocks + (10 if quick else 200)) * 999
    for e in evs[:3]:
        ctx.sample({k: (uncps(v) if isinstance(v, list) and k in ("base", "ident", "nation") else v) for k, v in e.items()})
    mism = ctx.validate_trace("Trace_SecIds", evs)
    byid = {e["id"]: e for e in evs}
    for eid, clauses in mism.items():
        e = byid[eid]
        d = {k: (uncps(v) if isinstance(v, list) and k in ("base", "ident", "nation", "prefix") else v) for k, v in e.items() if k != "outs"}
        if isinstance(d.get("out"), dict) and "s" in d["out"]:
            d["out"] = dict(d["out"], s=uncps(d["out"]["s"]))
        for cl in clauses:
            ctx.fail(dict(d, clause=cl, what="%s: %s" % (cl, d)))
