"""pytest plugin (thorough tiers): runs csingley/ofxtools' own test-suite with recorders on the public
entry points, so that every execution the repository's tests already perform becomes a trace event that
TLC validates - this is how changes are caught that the tests exercise but whose assertions are too weak.

Enabled with   -p verif_recorder   (PYTHONPATH=/verif/harness) and the environment
  VERIF_RECORD_DIR   directory for the ndjson streams
  VERIF_RECORD       comma separated streams to record: syntax,header,doc,types,file
The repository is not edited: the wrappers are installed at plugin load by monkeypatching."""
import io
import json
import os
import threading
import warnings

import xml.etree.ElementTree as ET

OUT = os.environ.get("VERIF_RECORD_DIR", "")
WANT = set(filter(None, os.environ.get("VERIF_RECORD", "").split(",")))
_files = {}
_count = {}
_lock = threading.Lock()
LIMIT = {"syntax": 20000, "header": 20000, "doc": 20000, "types": 40000, "file": 5000}
_depth = threading.local()


def emit(stream, ev):
    with _lock:
        n = _count.get(stream, 0)
        if n >= LIMIT[stream]:
            return
        _count[stream] = n + 1
        ev["id"] = "%s%d" % (stream[0], n)
        f = _files.get(stream)
        if f is None:
            f = _files[stream] = open(os.path.join(OUT, stream + ".ndjson"), "w")
        f.write(json.dumps(ev, ensure_ascii=True, separators=(",", ":")) + "\n")
        f.flush()


def cps(s):
    return [ord(c) for c in s]


def install():
    import ofxtools.Parser as P
    import ofxtools.header as H
    from ofxtools.models.base import Aggregate
    import doc_common as dc
    import syn_common as sc
    import hdr_common as hc
    import types_common as tc

    if "syntax" in WANT:
        o_feed, o_close = P.TreeBuilder.feed, P.TreeBuilder.close

        def feed(self, data):
            self._verif_text = getattr(self, "_verif_text", "") + data
            try:
                return o_feed(self, data)
            except Exception as e:
                if not getattr(self, "_verif_done", False):
                    self._verif_done = True
                    emit("syntax", {"op": "parse", "txt": cps(self._verif_text), "haswant": False, "want": [],
                                    "out": {"ok": False, "tree": [], "exc": type(e).__name__}})
                raise

        def close(self):
            try:
                root = o_close(self)
            except Exception as e:
                if not getattr(self, "_verif_done", False) and hasattr(self, "_verif_text"):
                    self._verif_done = True
                    emit("syntax", {"op": "parse", "txt": cps(self._verif_text), "haswant": False, "want": [],
                                    "out": {"ok": False, "tree": [], "exc": type(e).__name__}})
                raise
            if hasattr(self, "_verif_text") and not getattr(self, "_verif_done", False) and isinstance(root, ET.Element):
                self._verif_done = True
                emit("syntax", {"op": "parse", "txt": cps(self._verif_text), "haswant": False, "want": [],
                                "out": {"ok": True, "tree": sc.project_tree(root), "exc": ""}})
            return root
        P.TreeBuilder.feed, P.TreeBuilder.close = feed, close

    if "header" in WANT:
        o_ph = H.parse_header

        def parse_header(source):
            data = None
            try:
                pos = source.tell()
                data = source.read()
                source.seek(pos)
            except Exception:
                data = None
            if not isinstance(data, (bytes, bytearray)):
                return o_ph(source)
            try:
                h, body = o_ph(source)
            except Exception as e:
                emit("header", {"op": "parse", "file": list(data), "out": {"st": "err", "exc": type(e).__name__}})
                raise
            try:
                kind, f = hc.project_header(h)
                emit("header", {"op": "parse", "file": list(data), "out": {"st": "ok", "kind": kind, "f": f, "body": cps(body)}})
            except Exception:
                pass
            return h, body
        H.parse_header = parse_header
        P.parse_header = parse_header

    if "doc" in WANT:
        import export_schema
        schema, types = export_schema.export()
        dc.TYPES = types
        o_fe = Aggregate.from_etree.__func__

        def shape_ok(el):
            if len(el) and (el.text or "").strip():
                return False
            if len(el) == 0 and el.text is not None and el.text != el.text.strip():
                return False
            return all(shape_ok(k) for k in el)

        def from_etree(cls, elem):
            d = getattr(_depth, "n", 0)
            if d > 0 or not isinstance(elem, ET.Element):
                return o_fe(cls, elem)
            _depth.n = 1
            try:
                ok_shape = shape_ok(elem) and not any(k.text is not None and k.text != "" and len(k) for k in elem.iter())
                nwarn = 0
                try:
                    with warnings.catch_warnings(record=True) as w:
                        warnings.simplefilter("always")
                        inst = o_fe(cls, elem)
                        nwarn = len(w)
                    for x in w:
                        warnings.warn_explicit(x.message, x.category, x.filename, x.lineno)
                except Exception as e:
                    if ok_shape:
                        emit("doc", {"op": "doc", "route": "etree", "doc": dc.etree_to_doc(elem), "label": "repo-test", "expect": "",
                                     "hastwin": False, "twin": {"cls": "", "els": [], "mem": []},
                                     "out": {"ok": False, "inst": {"cls": "", "els": [], "mem": []}, "exc": type(e).__name__, "warn": 0}})
                    raise
                if ok_shape:
                    try:
                        emit("doc", {"op": "doc", "route": "etree", "doc": dc.etree_to_doc(elem), "label": "repo-test", "expect": "",
                                     "hastwin": False, "twin": {"cls": "", "els": [], "mem": []},
                                     "out": {"ok": True, "inst": dc.project_inst(inst, schema), "exc": "", "warn": nwarn}})
                    except Exception:
                        pass
                return inst
            finally:
                _depth.n = 0
        Aggregate.from_etree = classmethod(from_etree)

    if "types" in WANT:
        from ofxtools import Types
        for cls in (Types.Bool, Types.String, Types.NagString, Types.OneOf, Types.Integer, Types.Decimal, Types.DateTime, Types.Time):
            def wrap(cls=cls):
                o_get = cls.__dict__.get("__set__") or Types.Element.__set__
            wrap()
        o_set = Types.Element.__set__

        def __set__(self, obj, value):
            # every attribute assignment on a model goes through here: value in, converted value stored
            t = tc.ty_of_element(self) if not isinstance(self, (Types.SubAggregate, Types.ListElement)) else None
            if t is None or not isinstance(value, str) or value == "" or value != value.strip():
                return o_set(self, obj, value)
            try:
                o_set(self, obj, value)
            except Exception as e:
                emit("types", {"op": "conv", "ty": t, "txt": cps(value), "out": {"t": "reject"}, "warn": False, "exc": type(e).__name__})
                raise
            try:
                emit("types", {"op": "conv", "ty": t, "txt": cps(value), "out": tc.project(obj.__dict__[self.name]), "warn": True, "exc": ""})
            except Exception:
                pass
        Types.Element.__set__ = __set__


def pytest_configure(config):
    if OUT and WANT:
        os.makedirs(OUT, exist_ok=True)
        install()


def pytest_unconfigure(config):
    for f in _files.values():
        f.close()
