"""C04 - every constraint a model class declares is enforced at every way of building it.

M: MC_Schema: the minimal document of every class is accepted (so each single-constraint variant
   below differs from a valid document in exactly one respect); the document machine enforces
   required children, exclusivity groups declared anywhere in the MRO, enumerations, lengths,
   digit limits, order, duplicates and slot kinds.
G: for every class and every constraint it declares or inherits: the violating variant and the
   boundary variant of MinDoc(c), built through Aggregate.from_etree AND through keyword
   construction.
T: TLC runs the document machine on the same tokens and judges accept / reject; the generator's
   intention (must-reject / must-accept) is checked against the specification as well, and every
   instance that was returned is written out and re-validated by the machine.
"""
import copy
import random

import doc_common as dc
import export_schema
from c13 import add_child, sample
from core import uncps, MachineryError


def variants(cls, base, schema, types, mins, rnd):
    """(label, expect, nested doc, routes, unknownkw) single-constraint variants of MinDoc(cls)"""
    attrs = schema[cls]["attrs"]
    byattr = {a["a"]: a for a in attrs}
    bytag = {a["tag"]: a for a in attrs}
    out = []
    both = ("etree", "kw")
    custom = schema[cls]["custom_validate"]
    present = [k[0] for k in base[2]]
    # 1. required children
    for a in attrs:
        if a["req"] and a["tag"] in present:
            n = copy.deepcopy(base)
            n[2] = [k for k in n[2] if k[0] != a["tag"]]
            out.append(("omit-required %s" % a["a"], "reject", n, both))
    # 2./3. exclusivity groups (declared anywhere in the MRO)
    for g in schema[cls]["om"]:
        if any(byattr[x]["k"] == "lelem" for x in g if x in byattr):
            continue        # names a repeated data element: static finding of C13
        members = [byattr[x] for x in g if x in byattr]
        for m in members:
            n = add_child(base, cls, m, schema, types, mins)
            out.append(("optional-group one %s" % m["a"], "accept", n, both))
        if len(members) >= 2:
            n = add_child(base, cls, members[0], schema, types, mins)
            n2 = copy.deepcopy(n)
            m = members[1]
            new = [m["tag"], sample(types, m["ty"]), []] if m["k"] == "elem" else copy.deepcopy(mins[m["cls"]])
            n2[2].append(new)
            idx = {x["tag"]: i for i, x in enumerate(attrs)}
            n2[2].sort(key=lambda k: idx.get(k[0], 10 ** 6))
            out.append(("optional-group two %s+%s" % (members[0]["a"], m["a"]), "reject", n2, both))
    for g in schema[cls]["rm"]:
        members = [byattr[x] for x in g if x in byattr]
        n0 = copy.deepcopy(base)
        n0[2] = [k for k in n0[2] if k[0] not in {m["tag"] for m in members}]
        out.append(("required-group none %s" % "/".join(g), "reject", n0, both))
        for m in members:
            n = add_child(base, cls, m, schema, types, mins)
            out.append(("required-group one %s" % m["a"], "accept", n, both))
        if len(members) >= 2:
            n = copy.deepcopy(n0)
            for m in members[:2]:
                n[2].append([m["tag"], sample(types, m["ty"]), []] if m["k"] == "elem" else copy.deepcopy(mins[m["cls"]]))
            idx = {x["tag"]: i for i, x in enumerate(attrs)}
            n[2].sort(key=lambda k: idx.get(k[0], 10 ** 6))
            out.append(("required-group two %s" % "/".join(g), "reject", n, both))
    # 4.-6. value constraints of data elements
    for a in attrs:
        if a["k"] not in ("elem", "lelem"):
            continue
        t = types[int(a["ty"][1:])]
        vals = []
        if t["k"] == "oneof":
            toks = [uncps(v) for v in t["valid"]]
            vals.append(("enum-foreign", "reject", "XYZZY"))
            vals.append(("enum-lowercase", "reject", toks[0].lower() if toks[0].lower() != toks[0] else toks[0] + "x"))
            vals.append(("enum-valid", "accept", rnd.choice(toks)))
        elif t["k"] in ("str", "nag") and t["len"] != -1:
            vals.append(("length-at-limit", "accept", "x" * t["len"]))
            vals.append(("length-over-limit", "accept" if t["k"] == "nag" else "reject", "x" * (t["len"] + 1)))
            if t["len"] >= 5:
                vals.append(("length-decoded-at-limit", "accept", "&amp;" + "x" * (t["len"] - 1)))
            over = "accept" if t["k"] == "nag" else "reject"
            vals.append(("length-over-limit-with-entity", over, "&amp;" + "x" * t["len"]))
            # (the limit counts characters as they are: a base letter and its combining mark are two)
            vals.append(("length-over-limit-combining-marks", over, "x" * max(t["len"] - 1, 0) + "e\u0301" + ("e\u0301" if t["len"] > 1 else "")))
            vals.append(("length-over-limit-with-ampersand", over, "x" * t["len"] + "&"))
            vals.append(("length-over-limit-with-lt-entity", over, "x" * t["len"] + "&lt;"))
        elif t["k"] == "int" and t["len"] != -1:
            vals.append(("digits-at-limit", "accept", "9" * t["len"]))
            vals.append(("digits-over-limit", "reject", "1" + "0" * t["len"]))
            vals.append(("digits-negative-at-limit", "accept", "-" + "9" * t["len"]))
            vals.append(("digits-negative-over-limit", "reject", "-1" + "0" * t["len"]))
        elif t["k"] == "bool":
            vals.append(("bool-foreign", "reject", "y"))
        elif t["k"] in ("dt", "time"):
            vals.append(("datetime-malformed", "reject", "2020130100" if t["k"] == "dt" else "2460"))
        elif t["k"] == "dec":
            vals.append(("decimal-malformed", "reject", "1.2.3"))
        for lab, exp, text in vals:
            n = add_child(base, cls, a, schema, types, mins)
            done = False
            for k in n[2]:
                if k[0] == a["tag"] and not done:
                    k[1] = text
                    done = True
            out.append(("%s %s" % (lab, a["a"]), exp, n, both))
    # 7./8. order and duplicates (only expressible in a document)
    kids = base[2]
    for i in range(len(kids) - 1):
        a1, a2 = bytag.get(kids[i][0]), bytag.get(kids[i + 1][0])
        if a1 is None or a2 is None or a1["tag"] == a2["tag"]:
            continue
        if a1["k"] in ("lagg", "lelem") and a2["k"] in ("lagg", "lelem"):
            continue
        n = copy.deepcopy(base)
        n[2][i], n[2][i + 1] = n[2][i + 1], n[2][i]
        out.append(("order-swap %s/%s" % (a1["a"], a2["a"]), "reject", n, ("etree",)))
    for i, k in enumerate(kids):
        a = bytag.get(k[0])
        if a is None or a["k"] in ("lagg", "lelem"):
            continue
        n = copy.deepcopy(base)
        n[2].insert(i + 1, copy.deepcopy(k))
        out.append(("duplicate %s" % a["a"], "reject", n, ("etree",)))
    # 7b. a list member placed after a non-list child that is declared behind the list, or before one declared ahead
    idx = {x["tag"]: i for i, x in enumerate(attrs)}
    for li, L in enumerate(attrs):
        if L["k"] not in ("lagg", "lelem"):
            continue
        for T in attrs:
            if T["k"] not in ("elem", "sub") or T["tag"] == L["tag"]:
                continue
            n = add_child(base, cls, L, schema, types, mins)
            base2 = [n[0], n[1], n[2]]
            n = add_child(base2, cls, T, schema, types, mins)
            kidsn = n[2]
            mem = [k for k in kidsn if k[0] == L["tag"]]
            tk = [k for k in kidsn if k[0] == T["tag"]]
            if not mem or not tk:
                continue
            rest = [k for k in kidsn if k is not mem[-1]]
            ti = rest.index(tk[0])
            after = idx[T["tag"]] > idx[L["tag"]]
            # violate: member after a child declared behind the list / before a child declared ahead of it
            rest.insert(ti + 1 if after else ti, mem[-1])
            # only a violation if no other list member now directly precedes the moved member (list after list is free)
            pos = rest.index(mem[-1])
            prev = rest[pos - 1] if pos > 0 else None
            if after and prev is not None and bytag.get(prev[0], {}).get("k") in ("lagg", "lelem"):
                continue
            out.append(("order-list-member %s %s %s" % (L["a"], "after" if after else "before", T["a"]), "", [n[0], n[1], rest], ("etree",)))
            break
    # 12. every repeated child taken away (classes whose own validator wants some member)
    n = copy.deepcopy(base)
    n[2] = [k for k in n[2] if bytag.get(k[0], {}).get("k") not in ("lagg", "lelem")]
    if len(n[2]) != len(base[2]):
        out.append(("no-list-members", "", n, both))
    # 11. slot kinds
    for a in attrs:
        if a["k"] in ("sub", "lagg"):
            n = add_child(base, cls, a, schema, types, mins)
            for k in n[2]:
                if k[0] == a["tag"]:
                    k[1], k[2] = "x", []
                    break
            out.append(("text-in-aggregate-slot %s" % a["a"], "reject", n, both))
            break
    return out


def run(ctx):
    quick = ctx.tier == "quick"
    schema, types = export_schema.write(ctx)
    mins, _ = dc.mindocs(ctx)
    rnd = random.Random(ctx.seed * 86028121 + 4)
    ctx.rule = ("for every class (390) and every declared or inherited constraint: the violating and the boundary variant "
                "of the TLC-computed minimal document, through from_etree and through keyword construction; plus foreign "
                "list members, bare strings as list members and unknown keywords on the keyword route; every returned "
                "instance is written and re-validated; non-trivial = distinct (class, constraint variant, route)")
    evs = []
    n = 0
    classes = sorted(schema)
    for cls in classes:
        vs = variants(cls, mins[cls], schema, types, mins, rnd)
        for lab, exp, node, routes in vs:
            doc = dc.from_nested(node)
            for route in routes + (("kwnative", "kwnone") if "kw" in routes else ()):
                e = dc.ev_doc("v%d%s" % (n, route[:3]), doc, schema, route=route, label="%s %s" % (cls, lab), expect=exp)
                if e is None:
                    continue
                e["unknownkw"] = False
                evs.append(e)
                ctx.nontrivial.add((cls, lab, route))
            n += 1
    # depth 2: a violating (or boundary) variant of a class embedded as an OPTIONAL child or list member of a parent:
    # the parent must be refused as well (an invalid child is never silently dropped)
    parents = {}
    for pcls in classes:
        for a in schema[pcls]["attrs"]:
            if a["k"] in ("sub", "lagg") and not a["req"] and a["cls"] in schema:
                parents.setdefault(a["cls"], []).append((pcls, a))
    nested = 0
    for cls in classes:
        if cls not in parents:
            continue
        vs = [v for v in variants(cls, mins[cls], schema, types, mins, rnd) if v[1] in ("reject", "accept")]
        rej = [v for v in vs if v[1] == "reject"]
        acc = [v for v in vs if v[1] == "accept"]
        pick = rnd.sample(rej, min(len(rej), 3 if quick else 8)) + rnd.sample(acc, min(len(acc), 1 if quick else 3))
        for lab, exp, node, routes in pick:
            pcls, pa = rnd.choice(parents[cls])
            pnode = add_child(mins[pcls], pcls, pa, schema, types, mins)
            placed = False
            for i, k in enumerate(pnode[2]):
                if k[0] == pa["tag"] and not placed:
                    pnode[2][i] = node
                    placed = True
            if not placed:
                continue
            doc = dc.from_nested(pnode)
            for route in ("etree",) + (("kw",) if "kw" in routes else ()):
                e = dc.ev_doc("n%d%s" % (nested, route[0]), doc, schema, route=route, label="%s nested in %s: %s" % (cls, pcls, lab), expect=exp)
                if e is None:
                    continue
                e["unknownkw"] = False
                evs.append(e)
                ctx.nontrivial.add((cls, pcls, lab, route))
            nested += 1
    ctx.extra["nested_variants"] = nested
    ctx.extra["variants"] = n
    # the same attempts in a fresh interpreter in which every abstract base class (TrnRq, TrnRs, the sync lists, ...) was
    # used BEFORE any concrete class: a constraint is enforced whatever was built or inspected earlier
    import json as _json
    import subprocess
    import sys as _sys
    import os as _os
    from core import REPO
    derived = {c for c in classes if schema[c]["bases"]}
    cand = [e for e in evs if e["route"] in ("etree", "kw") and e["doc"] and e["doc"][0]["tag"] in derived]
    rest = [e for e in evs if e["route"] in ("etree", "kw") and e["doc"] and e["doc"][0]["tag"] not in derived]
    pick = rnd.sample(cand, min(len(cand), 250 if quick else 3000)) + rnd.sample(rest, min(len(rest), 100 if quick else 1500))
    jobs = [{"id": "hb-" + e["id"], "doc": e["doc"], "route": e["route"], "label": e["label"] + " (after the base classes were used)",
             "expect": e["expect"], "extra": {"unknownkw": e.get("unknownkw", False)}} for e in pick]
    jf, of = _os.path.join(ctx.work, "bases-first.jobs.json"), _os.path.join(ctx.work, "bases-first.out.json")
    _json.dump(jobs, open(jf, "w"))
    pr = subprocess.run([_sys.executable, _os.path.join(_os.path.dirname(__file__), "doc_worker.py"), REPO, _os.path.join(ctx.work, "schema.json"),
                         jf, of, "bases"], capture_output=True, text=True, timeout=1800,
                        env=dict(_os.environ, PYTHONHASHSEED="0", PYTHONDONTWRITEBYTECODE="1"))
    if pr.returncode != 0:
        raise MachineryError("doc_worker failed: " + pr.stderr[-1500:])
    hb = _json.load(open(of))
    evs += hb
    ctx.extra["attempts_repeated_after_base_classes_were_used"] = len(hb)
    # keyword route only: foreign list member, bare string member, unknown keyword
    import ofxtools.models as M
    from ofxtools.models.base import Aggregate
    kwfail = 0
    for cls in classes:
        C = getattr(M, cls)
        attrs = schema[cls]["attrs"]
        base = dc.build_kw(mins[cls], schema)
        members = list(base)
        kwargs = {a["a"]: getattr(base, a["a"]) for a in attrs if a["k"] in ("elem", "sub") and getattr(base, a["a"]) is not None}
        lists = [a for a in attrs if a["k"] == "lagg"]
        try:
            C(*members, **kwargs)
        except Exception as ex:     # the rebuilt minimal instance must be accepted
            ctx.fail({"clause": "kw-rebuild-minimal", "class": cls, "what": "rebuilding MinDoc(%s) by keywords failed: %r" % (cls, ex)})
            continue
        tries = [("unknown-keyword", members, dict(kwargs, zzunknown="1"))]
        if lists:
            allowed = {a["cls"] for a in lists}
            foreign = next(x for x in ("STATUS", "BAL", "FI") if x not in allowed)
            tries.append(("foreign-list-member %s" % foreign, members + [dc.build_kw(mins[foreign], schema)], kwargs))
            tries.append(("bare-string-list-member", members + ["x"], kwargs))
        elif not schema[cls]["elementlist"]:
            tries.append(("list-member-where-none-declared", members + [dc.build_kw(mins["STATUS"], schema)], kwargs))
        # a number over the digit limit passed as a Python value of another numeric type
        import decimal as _dec
        for a in attrs:
            if a["k"] == "elem" and a["a"] in kwargs and types[int(a["ty"][1:])]["k"] == "int" and types[int(a["ty"][1:])]["len"] != -1:
                n_ = types[int(a["ty"][1:])]["len"]
                for lab_, val_ in (("decimal", _dec.Decimal(10 ** n_)), ("float", float(10 ** n_)), ("negative-decimal", _dec.Decimal(-(10 ** n_)))):
                    tries.append(("over-limit-integer-as-%s %s" % (lab_, a["a"]), members, dict(kwargs, **{a["a"]: val_})))
                break
        for lab, ar, kw in tries:
            ctx.evaluations += 1
            ctx.nontrivial.add((cls, lab, "kw"))
            try:
                C(*ar, **kw)
                ctx.fail({"clause": "kw-" + lab.split(" ")[0], "class": cls, "label": lab,
                          "what": "%s(%s) was accepted" % (cls, lab)})
                kwfail += 1
            except Exception:
                pass
    # every returned instance is written and re-validated by the machine
    k = 0
    for e in list(evs):
        if e["out"]["ok"] and e["route"] == "etree" and (not quick or k % 3 == 0):
            try:
                inst = Aggregate.from_etree(dc.to_etree(e["doc"]))
                doc2 = dc.etree_to_doc(inst.to_etree())
                e2 = dc.ev_doc(e["id"] + "w", doc2, schema, route="etree", label=e["label"] + " (instance rewritten)",
                               expect="accept", twin=e["out"]["inst"])
                e2["unknownkw"] = False
                evs.append(e2)
            except Exception as ex:
                ctx.fail({"clause": "rewrite", "label": e["label"], "what": "instance of %s could not be written: %r" % (e["label"], ex)})
        k += 1
    ctx.evaluations += len(evs)
    ctx.exhaustive = True
    for e in evs[:2] + evs[-1:]:
        ctx.sample({"label": e["label"], "route": e["route"], "doc": dc.doc_text(e["doc"])[:300], "ok": e["out"]["ok"]})
    dc.judge(ctx, evs)
