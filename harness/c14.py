"""C14 - the client sends only what it should, where it should, and nothing on a dry run.

M: MC_Net: over all histories of calls by two clients (request kinds x dry / skip_profile / normal x
   profile advertising the same or another URL x cookie-setting hosts): NoPostOnDryRun,
   OnePostPerRequest, ProfileIsAnonymous, ProfileGoesToConfiguredUrl, CredentialsOnlyWhereAllowed,
   CookieIsolation, CookieReplay.
G: behaviours simulated by TLC are replayed on real OFXClient instances against in-process fake
   servers installed UNDER urllib's opener (the client's own HTTPCookieProcessor stays in the chain).
T: every call with the POSTs the servers saw (host, method, headers, cookie, body) is validated by the
   stateful trace specification Trace_Net, which carries the jars / issued cookies of OFXNet and reads
   every POST body itself to decide the request kind and whose credentials it carries.
"""
import datetime
import os
import random
import shutil
from pathlib import Path

import doc_common as dc
import export_schema
import fakenet
import ofx_server
from core import cps, MachineryError

CFG = """SPECIFICATION Spec
CONSTANTS
  Clients = {"c1", "c2"}
  NoPersist = {%s}
  MaxCalls = %d
%s
"""
INVS = ["INVARIANT ProfileIsAnonymous", "INVARIANT ProfileGoesToConfiguredUrl", "INVARIANT CredentialsOnlyWhereAllowed",
        "INVARIANT CookieIsolation", "INVARIANT CookieReplay", "INVARIANT NonPersistingSendsNone", "PROPERTY NoPostOnDryRun", "PROPERTY OnePostPerRequest"]
# the advertised service URL has upper-case characters in its path: a request goes to the URL as advertised
HOSTURL = {"cfg": "https://cfg.invalid/ofx", "svc": "https://svc.invalid/OFXServer/Stmt.dll"}
URLHOST = {"https://cfg.invalid/ofx": "cfg", "https://svc.invalid/OFXServer/Stmt.dll": "svc"}


def apalache_inductive(ctx):
    """unbounded: the cookie invariants as an inductive invariant (Apalache, spec/APA_Net.tla on the shared OFXNet module)"""
    import core
    core.apalache(ctx, "apalache_inductive_invariant", ["OFXNet.tla", "APA_Net.tla"], "APA_Net",
                  [("base", "APA_Net", "Init", "IndInv", 0, True), ("step", "APA_Net", "IndInit", "IndInv", 1, True),
                   ("control-not-inductive-without-JarOK", "APA_Net", "WeakInit", "WeakInv", 1, False),
                   ("control-init-not-trivial", "APA_Net", "IndInit", "Trivial", 0, False)])


def run(ctx):
    import ofxtools.config as config
    from ofxtools.Client import OFXClient, StmtRq, CcStmtRq, InvStmtRq, StmtEndRq, CcStmtEndRq
    quick = ctx.tier == "quick"
    schema, types = export_schema.write(ctx)
    mins, _ = dc.mindocs(ctx)
    rnd = random.Random(ctx.seed * 532801 + 14)
    ctx.rule = ("M: all states of MC_Net; G: TLC-simulated histories (4-6 calls, 2 clients) replayed; T: plus seeded histories of up "
                "to 10 calls on 3 clients; non-trivial = distinct (kind, mode, advertised host, cookie-setting hosts, client) calls")
    behs = []
    for nop in ("", '"c2"'):
        r = ctx.tlc("MC_Net", CFG % (nop, 3 if quick else 4, "\n".join(INVS)), tag="mc" + ("-nopersist" if nop else ""), timeout=900)
        if r.violated:
            raise MachineryError("MC_Net: %s" % r.violated)
        sim = ctx.tlc("MC_Net", CFG % (nop, 5, "CONSTRAINT Emit"), workers=1, simulate="num=%d" % (25 if quick else 800), depth=8,
                      tag="sim" + ("-nopersist" if nop else ""))
        behs += sim.printed_json("BEH")
    ctx.extra["spec_behaviours_replayed"] = len(behs)
    # random histories on three clients
    for _ in range(20 if quick else 800):
        calls = [{"client": rnd.choice(["c1", "c2", "c3"]), "kind": rnd.choice(["profile", "stmt", "acctinfo", "tax"]),
                  "mode": rnd.choice(["dry", "skip", "normal", "normal"])} for _ in range(rnd.randrange(1, 11))]
        behs.append({"adv": rnd.choice(["cfg", "svc"]), "sets": {"cfg": rnd.random() < 0.6, "svc": rnd.random() < 0.6}, "calls": calls,
                     "nop": [c for c in ("c2", "c3") if rnd.random() < 0.3]})
    apalache_inductive(ctx)
    net = fakenet.FakeNet()
    net.install()
    evs = []
    try:
        for bi, beh in enumerate(behs):
            data = Path(ctx.work) / "data" / ("h%d" % bi)
            data.mkdir(parents=True, exist_ok=True)
            config.DATADIR = data
            adv = beh["adv"]
            net.sets_cookie = {"cfg.invalid": bool(beh["sets"]["cfg"]), "svc.invalid": bool(beh["sets"]["svc"])}
            net.log = []
            net.nextsid = 1
            net.issued = []
            dtprof = [0]
            # the profile may leave statement message sets out (at least one stays) and may not offer closing statements
            stm = [m for m in ("BANKMSGSET", "CREDITCARDMSGSET", "INVSTMTMSGSET") if rnd.random() < 0.6] or [rnd.choice(["BANKMSGSET", "INVSTMTMSGSET"])]
            msgsets = tuple(m for m in ofx_server.ALL_MSGSETS if m in stm or m not in ("BANKMSGSET", "CREDITCARDMSGSET", "INVSTMTMSGSET"))
            closing = rnd.choice(["Y", "N"])

            # a server that MOVES its service between two calls without touching the profile date (and ignores the date the
            # client names): the request goes where the profile just received says
            moving = rnd.random() < 0.25
            cur = [adv]

            def responder(host, path, body):
                if b"<PROFRQ>" in body:
                    if not moving:
                        dtprof[0] += 1
                    return 200, ofx_server.profile(mins, HOSTURL[cur[0]], dtprofup="202001%02d000000.000[+0:UTC]" % min(max(dtprof[0], 1), 28),
                                                   msgsets=msgsets, closingavail=closing).encode()
                return 200, ofx_server.empty_response(mins).encode()
            net.responder = responder
            userid, password = "user-" + str(bi), "p&w<%d>" % bi
            nop = [c for c in beh.get("nop", [])]
            # every client has its own user agent (sometimes equal ones); the ones in nop do not persist cookies
            uas = {c: rnd.choice(["InetClntApp/3.0", "MyAgent/1 x", "ua-" + c]) for c in ("c1", "c2", "c3")}
            clients = {}
            order = ["c1", "c2", "c3"]
            rnd.shuffle(order)
            for c in order:
                # every client of a history talks to the same institution (equal ORG/FID) with the same login
                clients[c] = OFXClient(HOSTURL["cfg"], userid=userid, org="ORG%d" % bi, fid="F", version=rnd.choice([102, 160, 203, 220]),
                                       bankid="123", brokerid="b.com", useragent=uas[c], persist_cookies=(c not in nop))
            evs.append({"id": "h%d" % bi, "op": "env", "adv": adv, "sets": {"cfg": bool(beh["sets"]["cfg"]), "svc": bool(beh["sets"]["svc"])},
                        "userid": cps(userid), "password": cps(password), "useragent": {c: cps(uas[c]) for c in uas}, "nopersist": nop})
            for ci, call in enumerate(beh["calls"]):
                if moving and ci > 0 and rnd.random() < 0.4:
                    cur[0] = "svc" if cur[0] == "cfg" else "cfg"
                cl = clients[call["client"]]
                n0 = len(net.log)
                dry = call["mode"] == "dry"
                skip = call["mode"] == "skip"
                exc = ""
                try:
                    if call["kind"] == "profile":
                        cl.request_profile(dryrun=dry)
                    elif call["kind"] == "stmt":
                        # any mix of statement request classes, whether or not the profile lists their message set
                        pool = [StmtRq(acctid="1", accttype="CHECKING"), CcStmtRq(acctid="2"), InvStmtRq(acctid="3"),
                                StmtEndRq(acctid="4", accttype="SAVINGS"), CcStmtEndRq(acctid="5")]
                        rqs = rnd.sample(pool, rnd.choice([1, 1, 1, 2, 3]))
                        cl.request_statements(password, *rqs, dryrun=dry, skip_profile=skip)
                    elif call["kind"] == "acctinfo":
                        cl.request_accounts(password, datetime.datetime(2020, 1, 1, tzinfo=datetime.timezone.utc), dryrun=dry, skip_profile=skip)
                    else:
                        cl.request_tax1099(password, "2019", dryrun=dry, skip_profile=skip)
                except Exception as e:
                    exc = type(e).__name__ + ": " + str(e)[:100]
                posts = []
                for rec in net.log[n0:]:
                    h = rec["headers"]
                    posts.append({"host": URLHOST.get(rec["url"], rec["url"] or "?"), "method": rec["method"],
                                  "cookie": fakenet.sid_of(h), "ctype": cps(h.get("content-type", "")), "accept": cps(h.get("accept", "")),
                                  "ua": cps(h.get("user-agent", "")), "file": list(rec["body"])})
                evs.append({"id": "h%dc%d" % (bi, ci), "op": "call", "client": call["client"], "kind": call["kind"], "mode": call["mode"],
                            "posts": posts, "exc": exc, "adv": cur[0]})
                ctx.nontrivial.add((call["kind"], call["mode"], adv, beh["sets"]["cfg"], beh["sets"]["svc"], call["client"]))
            shutil.rmtree(data, ignore_errors=True)
        # ---- two tenants of one provider: URLs that differ in the query string only, equal ORG / FID, one data directory;
        # the servers honour DTPROFUP ("up to date" when the client names their profile's date)
        import pc_sched
        for ti in range(6 if quick else 80):
            data = Path(ctx.work) / "data" / ("t%d" % ti)
            data.mkdir(parents=True, exist_ok=True)
            config.DATADIR = data
            T = {"t1": ("https://prov.invalid/tf/OFXServer?tr=OFX&cl=111", "https://prov.invalid/tf/OFXServer?tr=STMT&cl=111"),
                 "t2": ("https://prov.invalid/tf/OFXServer?tr=OFX&cl=222", "https://prov.invalid/tf/OFXServer?tr=STMT&cl=222")}
            label = {}
            for t_, (cu, su) in T.items():
                label[cu] = "cfg-" + t_
                label[su] = "svc-" + t_
            net.log = []
            net.sets_cookie = {}

            def responder(host, path, body, _T=T):
                full = net.log[-1]["url"]             # (the record of this very request: the full URL with its query)
                t_ = "t1" if "cl=111" in full else "t2"
                if b"<PROFRQ>" in body:
                    asked = pc_sched.asked_dt(body)
                    if asked >= 1:
                        return 200, ofx_server.profile(mins, _T[t_][1], status="1", with_profrs=False).encode()
                    return 200, ofx_server.profile(mins, _T[t_][1], dtprofup="20200101000000.000[+0:UTC]").encode()
                return 200, ofx_server.empty_response(mins).encode()
            net.responder = responder
            userid, password = "tuser%d" % ti, "t&pw%d" % ti
            evs.append({"id": "tn%d" % ti, "op": "env", "adv": "svc", "sets": {"cfg": False, "svc": False}, "userid": cps(userid),
                        "password": cps(password), "useragent": {c: [] for c in ("c1", "c2", "c3")}, "nopersist": []})
            order = [rnd.choice(["t1", "t2"]) for _ in range(rnd.randrange(2, 6))]
            if len(set(order)) == 1:
                order.append("t2" if order[0] == "t1" else "t1")
            for ci, t_ in enumerate(order):
                cl = OFXClient(T[t_][0], userid=userid, org="PROV", fid="9", version=203, bankid="123", brokerid="b.com")
                n0 = len(net.log)
                exc = ""
                try:
                    k_ = rnd.choice(["stmt", "acctinfo", "tax"])
                    if k_ == "stmt":
                        cl.request_statements(password, StmtRq(acctid="1", accttype="CHECKING"))
                    elif k_ == "acctinfo":
                        cl.request_accounts(password, datetime.datetime(2020, 1, 1, tzinfo=datetime.timezone.utc))
                    else:
                        cl.request_tax1099(password, "2019")
                except Exception as e:
                    exc = type(e).__name__ + ": " + str(e)[:100]
                posts = [{"host": label.get(rec["url"], rec["url"] or "?"), "file": list(rec["body"])} for rec in net.log[n0:]]
                evs.append({"id": "tn%dc%d" % (ti, ci), "op": "tcall", "tenant": t_, "client": "c1", "kind": k_, "mode": "normal", "posts": posts,
                            "exc": exc, "userid": cps(userid), "password": cps(password)})
                ctx.nontrivial.add(("tenant", t_, k_, ci > 0))
            shutil.rmtree(data, ignore_errors=True)
    finally:
        net.uninstall()
    ctx.evaluations = len(evs)
    for e in [x for x in evs if x["op"] == "call"][:3]:
        ctx.sample({"client": e["client"], "kind": e["kind"], "mode": e["mode"],
                    "posts": [{"host": p["host"], "cookie": p["cookie"], "bytes": len(p["file"])} for p in e["posts"]]})
    mism = ctx.validate_histories("Trace_Net", evs)
    byid = {e["id"]: e for e in evs}
    for eid, clauses in mism.items():
        e = byid[eid]
        for cl in clauses:
            ctx.fail({"clause": cl.split(" ")[0], "detail": cl, "client": e["client"], "kind": e["kind"], "mode": e["mode"], "exc": e["exc"],
                      "posts": [{"host": p["host"], "cookie": p.get("cookie")} for p in e["posts"]],
                      "what": "%s call=%s/%s/%s posts=%s exc=%s" % (cl, e["client"], e["kind"], e["mode"],
                                                                    [(p["host"], p.get("cookie")) for p in e["posts"]], e["exc"])})
