"""C05 - the header parser hands over exactly the body, decoded as the header declares.

M: MC_Header: for every layout of the writer (v1: leading blank lines, separators CRLF/LF/CR/none/
   blank, blanks after the colon, header-body gaps, three character sets; v2: quote styles, line
   breaks) the reference reading RefParse returns exactly the chosen fields and body.
G: emitted layouts are fed to the real parse_header.
T: the recorded calls plus seeded random layouts/bodies are judged by TLC, which reads every
   file itself with RefParse (Trace_Header).
"""
import random

import hdr_common as hc
from core import MachineryError

CFG = "SPECIFICATION Spec\n%s\nCONSTRAINT Emit\n"
INVS = ["LayoutParses", "CorruptRefused", "CorruptMostlyRefused"]
HI = {"1252": "€éÿ¤‰Ž", "ISO-8859-1": "éÿ¤\xa0\x85", "NONE": "€é漢😀¤"}
# text that Unicode normalisation would change: the body is handed over as it is in the file
NOT_NFC = "e\u0301 \u2126 \u212b \u1100\u1161 A\u030a"
# single-byte text whose bytes happen to be well-formed UTF-8 (the declared character set decides, not a guess)
UTF8_LOOKALIKE = {"1252": "Ã©Â£â‚¬", "ISO-8859-1": "Ã©Â£"}
CODEC = {"1252": "cp1252", "ISO-8859-1": "latin_1", "NONE": "utf_8"}


def random_files(ctx, rnd, n):
    files = []
    for i in range(n):
        if rnd.random() < 0.65:
            cs = rnd.choice(list(HI))
            sep = rnd.choice(["\r\n", "\n", "\r", "", " ", "\r\n\r\n", "\t"])
            bl = " " * rnd.choice([0, 0, 1, 2])
            uid = lambda: rnd.choice(["NONE", "a" * 36, "0-_Z", "".join(rnd.choice("abcXYZ019_-") for _ in range(rnd.randrange(1, 37)))])
            vals = ["100", "OFXSGML", str(rnd.choice([102, 103, 151, 160, 100, 199, rnd.randrange(100, 200)])),
                    rnd.choice(["NONE", "TYPE1"]), rnd.choice(["USASCII", "UNICODE", "UTF-8"]), cs, "NONE", uid(), uid()]
            names = ["OFXHEADER", "DATA", "VERSION", "SECURITY", "ENCODING", "CHARSET", "COMPRESSION", "OLDFILEUID", "NEWFILEUID"]
            head = rnd.choice(["", "", "\r\n", "\n\n", "  \n", "\n\r\n\n"] + (["\r", "\r\r", "\r \r"] if sep == "\r" else []))
            for k, (nm, v) in enumerate(zip(names, vals)):
                head += nm + ":" + bl + v + (sep if k < 8 else "")
            gap = rnd.choice(["", "\n", "\r\n", "\r\n\r\n", "\r", " ", "\n\n\n", "\t\r\n "])
            inner = rnd.choice(["x", HI[cs], "a&amp;b " + HI[cs][:2], "line1\r\nline2", "<B>" + HI[cs][-1] + "</B>"]
                               + ([NOT_NFC] if cs == "NONE" else [UTF8_LOOKALIKE[cs]]))
            if cs == "NONE" and rnd.random() < 0.01:
                # a body larger than any read buffer, multi-byte characters at every offset class
                inner = "a" * rnd.randrange(0, 4) + rnd.choice(["é", "漢", "😀"]) * rnd.choice([3000, 4200, 9000])
            body = "<OFX>" + rnd.choice(["", "\r\n", "\n  "]) + "<A>" + inner + rnd.choice(["</A>", ""]) + rnd.choice(["", "\n"]) + "</OFX>"
            trail = rnd.choice(["", "", "\n", "\r\n", "  \r\n\r\n"])
            data = head.encode("ascii") + gap.encode("ascii") + body.encode(CODEC[cs]) + trail.encode("ascii")
            ctx.nontrivial.add((1, cs, sep, bl, gap, inner == HI[cs], trail != ""))
        else:
            xq = rnd.choice("\"'")
            oq = rnd.choice("\"'")
            # the quote style may differ from one pseudo-attribute to the next
            Q = [rnd.choice("\"'") if rnd.random() < 0.4 else oq for _ in range(5)]
            enc = rnd.choice(["UTF-8", "UTF-8", "utf-8", "Utf-8"])       # (encoding names are case-insensitive)
            xml = "<?xml version=%s1.0%s encoding=%s%s%s%s?>" % (xq, xq, xq, enc, xq, rnd.choice(["", " standalone=%sno%s" % (xq, xq)]))
            uid = lambda: rnd.choice(["NONE", "b" * 36, "9-_q"])
            ofx = "<?OFX OFXHEADER=%s200%s VERSION=%s%d%s SECURITY=%s%s%s OLDFILEUID=%s%s%s NEWFILEUID=%s%s%s?>" % (
                Q[0], Q[0], Q[1], rnd.choice([200, 201, 202, 203, 210, 211, 220]), Q[1], Q[2], rnd.choice(["NONE", "TYPE1"]), Q[2],
                Q[3], uid(), Q[3], Q[4], uid(), Q[4])
            br1 = rnd.choice(["", "\n", "\r\n", " "])
            br2 = rnd.choice(["", "\n", "\r\n", " ", "\r\n\r\n"])
            inner = rnd.choice(["x", HI["NONE"], "line1\nline2", NOT_NFC])
            if rnd.random() < 0.012:
                inner = "a" * rnd.randrange(0, 4) + rnd.choice(["é", "漢", "😀"]) * rnd.choice([3000, 4200, 9000])
            body = "<OFX><A>" + inner + "</A></OFX>"
            data = (rnd.choice(["", "\n"]) + xml + br1 + ofx + br2 + body + rnd.choice(["", "\n"])).encode("utf_8")
            ctx.nontrivial.add((2, xq, oq, len(set(Q)) > 1, br1, br2, inner))
        if rnd.random() < 0.03 and any(b > 0xdf for b in data) and (cs_ := ("NONE" if data.startswith(b"<") or b"CHARSET:NONE" in data else "")):
            # a download cut in the middle of a multi-byte character, BEFORE the whole file: the failure of one read must
            # not leave anything behind for the next
            k = max(i for i, b in enumerate(data) if b > 0xdf)
            files.append(bytearray(data[:k + 1]))      # (a bytearray marks it: read, outcome not judged - the property is silent)
        files.append(data)
    return files


def run(ctx):
    quick = ctx.tier == "quick"
    ctx.rule = ("grid = TLC states of MC_Header (layout family and field family per (charset, separator, version) seed); "
                "random = seeded layouts with random separators/blanks/gaps/UIDs and bodies holding characters that differ "
                "between cp1252, latin-1 and UTF-8; non-trivial = distinct layout signatures")
    r = ctx.tlc("MC_Header", CFG % "\n".join("INVARIANT " + i for i in INVS), env={"EMITMOD": 0}, tag="mc")
    if r.violated:
        raise MachineryError("model-level theorem violated in MC_Header: %s" % r.violated)
    g = ctx.tlc("MC_Header", CFG % "", env={"EMITMOD": 9 if quick else 2}, workers=1, tag="emit")
    evs = []
    n = 0
    for c in g.printed_json("CASE"):
        evs.append(hc.ev_parse("g%d" % n, bytes(c["file"])))
        n += 1
    ctx.extra["grid_cases_replayed"] = n
    rnd = random.Random(ctx.seed * 611953 + 5)
    ntrunc = 0
    for i, data in enumerate(random_files(ctx, rnd, 3000 if quick else 40000)):
        if isinstance(data, bytearray):
            hc.ev_parse("t%d" % i, bytes(data))       # a truncated download: whatever happens, the NEXT files are judged
            ntrunc += 1
            continue
        evs.append(hc.ev_parse("r%d" % i, data))
    ctx.extra["truncated_downloads_interleaved"] = ntrunc
    ctx.evaluations = len(evs)
    for e in evs[:2] + evs[-2:]:
        ctx.sample(hc.describe(e))
    if not quick:
        # the repository's own 3592 tests as a trace source (recording plugin, no repository edits)
        import recorded
        rec = recorded.record(ctx, "header")
        for e in rec:
            e["id"] = "repo-" + e["id"]
        evs += rec
        ctx.evaluations = len(evs)
    hc.judge(ctx, evs)
