"""Builds OFX server responses (profile, account information, statements) as wire text from the
TLC-computed minimal documents of the response classes - used by the fake servers of C14, C15, C19."""
import copy

import doc_common as dc

V2HDR = ('<?xml version="1.0" encoding="UTF-8" standalone="no"?>\r\n'
         '<?OFX OFXHEADER="200" VERSION="203" SECURITY="NONE" OLDFILEUID="NONE" NEWFILEUID="NONE"?>\r\n')


def setleaf(node, path, text):
    """set (or add) the leaf at path (list of tags) below node"""
    cur = node
    for tag in path[:-1]:
        cur = next(k for k in cur[2] if k[0] == tag)
    for k in cur[2]:
        if k[0] == path[-1]:
            k[1] = text
            return
    cur[2].append([path[-1], text, []])


def render(node):
    return V2HDR + dc.render_text(dc.from_nested(node), "xml")


def sonrs(mins, code="0"):
    s = copy.deepcopy(mins["SIGNONMSGSRSV1"])
    setleaf(s, ["SONRS", "STATUS", "CODE"], code)
    return s


_CACHE = {}


ALL_MSGSETS = ("SIGNONMSGSET", "BANKMSGSET", "CREDITCARDMSGSET", "INVSTMTMSGSET", "PROFMSGSET", "SIGNUPMSGSET", "TAX1099MSGSET")


def profile(mins, url, dtprofup="20200101000000.000[+0:UTC]", status="0", with_profrs=True, msgsets=ALL_MSGSETS, closingavail="Y",
            finame=None):
    key = (id(mins), url, status, with_profrs, tuple(msgsets), closingavail)
    if key not in _CACHE:
        _CACHE[key] = _profile(mins, url, "@@DTPROFUP@@", status, with_profrs, msgsets, closingavail)
    text = _CACHE[key].replace("@@DTPROFUP@@", dtprofup)
    if finame is not None:
        import re
        text = re.sub(r"<FINAME>[^<]*</FINAME>", "<FINAME>%s</FINAME>" % finame, text, count=1)
    return text


def _profile(mins, url, dtprofup, status, with_profrs, msgsets=ALL_MSGSETS, closingavail="Y"):
    ofx = ["OFX", None, [sonrs(mins)]]
    trn = copy.deepcopy(mins["PROFTRNRS"])
    setleaf(trn, ["STATUS", "CODE"], status)
    trn[2] = [k for k in trn[2] if k[0] != "PROFRS"]
    if with_profrs:
        prs = copy.deepcopy(mins["PROFRS"])
        msl = next(k for k in prs[2] if k[0] == "MSGSETLIST")
        msl[2] = []
        for ms in msgsets:
            m = copy.deepcopy(mins[ms])
            v1 = m[2][0]
            core = next(k for k in v1[2] if k[0] == "MSGSETCORE")
            # (on the wire '&' is escaped: a service URL with a multi-parameter query string reads "...?a=1&amp;b=2")
            setleaf(core, ["URL"], url.replace("&", "&amp;"))
            if ms in ("BANKMSGSET", "CREDITCARDMSGSET"):
                setleaf(v1, ["CLOSINGAVAIL"], closingavail)
            msl[2].append(m)
        sil = next((k for k in prs[2] if k[0] == "SIGNONINFOLIST"), None)
        if sil is not None and not sil[2]:
            sil[2].append(copy.deepcopy(mins["SIGNONINFO"]))
        setleaf(prs, ["DTPROFUP"], dtprofup)
        trn[2].append(prs)
    ofx[2].append(["PROFMSGSRSV1", None, [trn]])
    return render(ofx)


def acctinfo(mins, infos):
    """infos: list of dict(kind=bank|cc|inv, acctid, accttype, instid, status)"""
    ofx = ["OFX", None, [sonrs(mins)]]
    trn = copy.deepcopy(mins["ACCTINFOTRNRS"])
    setleaf(trn, ["STATUS", "CODE"], "0")
    trn[2] = [k for k in trn[2] if k[0] != "ACCTINFORS"]
    rs = ["ACCTINFORS", None, [["DTACCTUP", "20200101", []]]]
    for inf in infos:
        ai = ["ACCTINFO", None, []]
        if inf["kind"] == "bank":
            x = ["BANKACCTINFO", None, [["BANKACCTFROM", None, [["BANKID", inf["instid"], []], ["ACCTID", inf["acctid"], []],
                                                               ["ACCTTYPE", inf["accttype"], []]]],
                                        ["SUPTXDL", inf.get("suptxdl", "Y"), []], ["XFERSRC", "N", []], ["XFERDEST", "N", []], ["SVCSTATUS", inf["status"], []]]]
        elif inf["kind"] == "cc":
            x = ["CCACCTINFO", None, [["CCACCTFROM", None, [["ACCTID", inf["acctid"], []]]],
                                      ["SUPTXDL", inf.get("suptxdl", "Y"), []], ["XFERSRC", "N", []], ["XFERDEST", "N", []], ["SVCSTATUS", inf["status"], []]]]
        else:
            x = ["INVACCTINFO", None, [["INVACCTFROM", None, [["BROKERID", inf["instid"], []], ["ACCTID", inf["acctid"], []]]],
                                       ["USPRODUCTTYPE", "OTHER", []], ["CHECKING", "N", []], ["SVCSTATUS", inf["status"], []]]]
        ai[2].append(x)
        rs[2].append(ai)
    trn[2].append(rs)
    ofx[2].append(["SIGNUPMSGSRSV1", None, [trn]])
    return render(ofx)


def empty_response(mins):
    key = (id(mins), "empty")
    if key not in _CACHE:
        _CACHE[key] = render(["OFX", None, [sonrs(mins)]])
    return _CACHE[key]
