"""Regenerates /verif/MANIFEST.json from the table below (kept in one place so the
manifest is valid at every commit)."""
import json
import os

VERIF = os.path.dirname(os.path.dirname(os.path.abspath(__file__)))
BASE = "cd /repo && env -u OFXTOOLS_VERIF /venv/bin/python -m pytest -ra -q -p no:cacheprovider --timeout=900 --continue-on-collection-errors"

# id -> (technique, level text, level note, design ref)
CHECKS = {
    "C09": ("TLA+ OFXTypes date-time semantics: TLC grid theorems + TLC-emitted grid replayed + trace validation of real converter calls",
            "TLC checks on the OFXTypes module that the reading rule denotes the same instant as an independent day count on a calendar/notation/offset grid, that single-field corruptions are rejected and that written texts read back within 0.5 ms; the grid cases and thousands of seeded random texts/instants are executed on the real DateTime/Time converters and every recorded call is re-computed by TLC (Trace_Types).",
            "Trusted: TLC, the transcription of the OFX date-time notation into OFXTypes.tla, the projection of datetime values to (day, ms). Seconds=60, offsets outside -12:00..+14:00 and padded offsets are left unjudged.",
            "DESIGN.md section 6 C09"),
    "C10": ("TLA+ OFXTypes converters: TLC theorems (inverse, canonical, None, wrong type, limits) on a parameter grid + grid replay + trace validation of real convert/unconvert calls",
            "TLC checks on OFXTypes that Conv/Unconv are mutually inverse, canonical and strict at limits for every parameterisation of the grid; every grid case and seeded random parameterisations (length 1..12, scale 0..8, enumerations, required or not, ListElement wrapper, wrong-typed values) are executed on the real Element classes and each call is re-computed by TLC (Trace_Types).",
            "Trusted: TLC, the transcription of OFX 3.2.8 into OFXTypes.tla, the value projection. Unjudged on read: exponent/NaN/Infinity texts, white space, '_' and non-ASCII digits. One known finding (entity-like string values at type level).",
            "DESIGN.md section 6 C10"),
    "C20": ("TLA+ SecIds check-digit algorithms: TLC algebra on exhaustive two-position domains + trace validation of the real utils functions",
            "TLC proves on the SecIds module, over all (position, character) pairs, that completed identifiers validate, any other check character fails, wrong lengths/prefixes fail, single-digit errors are detected and converted ISINs validate; the real cusip/sedol/isin functions are run on the emitted grid, on random bases, on all check-character replacements and agency prefixes (thorough: all 10^6 digits-only SEDOL bases) and TLC recomputes every result.",
            "Trusted: TLC, the transcription of the published CUSIP/SEDOL/ISIN algorithms, lib.NUMBERING_AGENCIES as exported. python -O (asserts off) is out of scope.",
            "DESIGN.md section 6 C20"),
    "C05": ("TLA+ OFXHeader reference reading (character-level) of whole files: TLC layout product + TLC-emitted layouts replayed + trace validation of real parse_header calls",
            "TLC checks on OFXHeader that for every layout the writer can choose (separators CRLF/LF/CR/none/blank, blanks after the colon, leading blank lines, header-body gaps, three character sets, v2 quote styles and line breaks) the reference reading returns exactly the chosen fields and body; emitted layouts and seeded random files are parsed by the real parse_header and TLC reads every file itself (bytes -> fields, body decoded per charset) to judge the result.",
            "Trusted: TLC, the header grammar and the cp1252/latin-1/UTF-8 tables in OFXHeader.tla. Unjudged: omitted COMPRESSION, v1 versions outside 1xx, bodies not encodable in the declared charset, text before the first '<'.",
            "DESIGN.md section 6 C05"),
    "C12": ("TLA+ OFXHeader: TLC corruption/omission/transposition theorems + all versions through make_header/str/parse_header + constructor domains, trace-validated",
            "TLC checks that every single-field corruption, omission and transposition of generated v1/v2 headers is refused by the reference reading; the corrupted files are fed to the real parser, make_header is driven over every version 0..999 (and non-numeric/over-long), security levels and UID classes, constructors over every field domain, and TLC judges kind, parse-back equality and refusal with OFXHeaderError.",
            "Trusted: TLC, field domains transcribed from OFX 2.2 in OFXHeader.tla. Unjudged: UIDs within length holding characters outside [A-Za-z0-9_-], v1 versions outside 1xx, omitted COMPRESSION.",
            "DESIGN.md section 6 C12"),
    "C02": ("TLA+ OFXSyntax lexer + pushdown tree builder + independent grammar: TLC Sound/Complete/LexPrint over all token streams + emitted streams replayed + trace validation of real TreeBuilder on random renderings",
            "TLC checks over every token stream of <= 6 (thorough 7) tokens that the reference tree builder accepts exactly the documents of an independent grammar (every rendering of every tree) and returns their tree, and that printing with any white-space layout and lexing gives the stream back; the valid streams in three layouts and thousands of random trees (full tag alphabet, Unicode data, per-node end-tag/CDATA/white-space choices) are parsed by the real TreeBuilder and TLC lexes and parses the same text itself to compare trees.",
            "Trusted: TLC, the reading of the OFX wire syntax in OFXSyntax.tla. Unjudged: tag names outside [A-Z0-9._], text before the first tag, character data mixed with CDATA, CDATA with edge white space.",
            "DESIGN.md section 6 C02"),
    "C08": ("TLA+ OFXSyntax: TLC Sound over all token streams + single-fault mutations of valid bodies judged by the spec parser via trace validation",
            "TLC checks over every token stream up to the bound that nothing outside the grammar is accepted; every emitted stream (valid or not) and every single fault (each token-boundary truncation, byte truncations, end-tag deletion/renaming/duplication/transposition, stray text, stray end tag, second root) of random and library-serialised bodies goes through the real TreeBuilder, and the expected verdict is the specification parser's verdict on the mutated text.",
            "Trusted: TLC, OFXSyntax.tla. Unjudged: text before the first tag, tag names outside the OFX alphabet.",
            "DESIGN.md section 6 C08"),
    "C13": ("TLA+ OFXAggregate over the exported live schema: TLC first-order schema invariants per class + TLC-computed minimal documents + per-child construct/write/read probe trace-validated",
            "TLC evaluates, for each of the 390 classes, first-order invariants over the exported declarations (child named after its class, class found by tag, exclusivity groups well-formed and in force wherever inherited, list children adjacent, minimal document accepted); for every declared child a document holding it is built, written and read back by the library and TLC's document machine judges both constructions and the equality of the two models.",
            "Trusted: TLC, the declaration exporter (walks the MRO itself, never calls cls.spec/_superdict), the extra-rule table transcribed from OFX prose. Exhaustive over the finite schema. Two former findings (tax1099 classes) were repaired in /repo (fix commits 0469982, 9585118) and are checked like everything else.",
            "DESIGN.md section 6 C13"),
    "C04": ("TLA+ OFXAggregate document machine: every (class, constraint, violating/boundary variant) of the TLC-computed minimal document through both construction routes, trace-validated",
            "For every class and every constraint it declares or inherits (required child, optional/required groups declared anywhere in the MRO, enumerations, string length, integer digits, order, duplicates, slot kinds, list member types, unknown keywords) the violating and the boundary variant of the minimal document is built through from_etree and through keyword construction; TLC runs the document machine on the same tokens and judges accept/reject, cross-checks the generator's intention, and re-validates every returned instance after writing it.",
            "Trusted: TLC, the exporter, OFXTypes for value limits. Depth-1 focus (each class is the root once) with minimal valid sub-aggregates. Classes whose custom validation is not in the extra-rule table are not judged on rejection.",
            "DESIGN.md section 6 C04"),
    "C03": ("TLA+ OFXAggregate + OFXTypes: TLC-simulated valid documents of all classes with leaf texts from each type's lexical space; converted model recomputed by TLC (set equality of placed values)",
            "TLC -simulate on the live schema generates valid documents (every class as root) whose leaves get texts from the whole lexical space of their type; the real conversion is projected to (class, ordered children, values) and TLC's document machine with OFXTypes.Conv at the leaves recomputes the whole instance - same places, same values, nothing else; every enumeration token and notation is also tried in the minimal document of its class.",
            "Trusted: TLC, the exporter, OFXTypes (independent transcription of the type rules). Sampled, not exhaustive, over documents.",
            "DESIGN.md section 6 C03"),
    "C07": ("TLA+ OFXAggregate skip rule: unknown/vendor elements and subtrees inserted at every position of valid documents, through from_etree and XML/SGML text, trace-validated against the machine and the twin document",
            "For the TLC-computed minimal document of every class and TLC-simulated valid documents, unknown data elements, empty elements, aggregates with known content, tags known elsewhere and vendor-prefixed elements/aggregates are inserted at positions inside any aggregate (thorough: every position), converted directly and through the XML and SGML renderings; TLC judges the mutated document (accepted, model equal to the machine's) and the model must equal the conversion of the document without the insertions.",
            "Trusted: TLC, the exporter. Quick tier samples positions/kinds; thorough enumerates every position.",
            "DESIGN.md section 6 C07"),
    "C01": ("Composition OFXFile = OFXHeader + OFXSyntax + OFXAggregate: instances of all classes written by OFXClient.serialize in all wire forms; TLC reads the written bytes to an instance and compares with the original and with what the library reads back",
            "TLC-simulated valid instances of all classes (rich values, non-UTC zones, sub-ms parts) and the minimal instance of every class are written in XML / SGML closed / SGML unclosed x plain / pretty x header versions and read back; TLC reads the same bytes with the reference header reading, lexer, tree builder and document machine and judges: the file is well-formed and denotes the original instance, and the model read back equals it.",
            "Trusted: TLC, the three specification layers, the instance projection (instants to the ms, decimal sign/digits/exponent, exact strings). One known finding (unclosed form with an empty aggregate); the former TAX1099INT_V100 list-slot finding was repaired in /repo (0469982).",
            "DESIGN.md section 6 C01"),
    "C11": ("Composition OFXFile with the Lexical predicates of OFXTypes: adversarial values set on instances of all classes, written in all wire forms; TLC judges every written data element",
            "Instances of all classes get adversarial values through the model's own attribute interface (decimals of any exponent, NaN/Infinity, markup and entity-like strings, date-times in any zone with arbitrary names, bool for integers); each is written in the wire forms and TLC reads the bytes: every data element must be lexically valid for its declared type and clean on the wire ('<' never raw, '&' only starting an entity); a refusal to write is an accepted outcome.",
            "Trusted: TLC, the lexical predicates transcribed from OFX 3.2.8. Control characters and edge white space in strings are outside the quantifier. One known finding (unclosed form with an empty aggregate).",
            "DESIGN.md section 6 C11"),
    "C16": ("TLA+ OFXAccess (depth-first lookup and shortcut paths over abstract instances): every receiver x every name declared below / nowhere x shortcuts x copy/pickle, results recorded by object identity (paths) and judged by TLC",
            "On TLC-simulated instances of all classes and statement-bearing OFX trees, every aggregate is taken as receiver: getattr/hasattr/getattr-with-default for every name declared below it, names declared nowhere below and dunder names; all 15 documented shortcuts; copy, deepcopy and pickle. Aggregates returned are reported by the path of the very object (identity); TLC recomputes Lookup / the shortcut path on the abstract instance and compares.",
            "Trusted: TLC, the exporter, the reading of the documented shortcuts as paths. Unjudged: names defined by several descendants, names of repeated/unsupported children, names shadowed by list methods or properties, ORG/FID when FI is absent, trnuid/cltcookie stapled onto statement responses.",
            "DESIGN.md section 6 C16"),
    "C06": ("TLA+ OFXCompose clauses over the instance TLC reads from the dry-run bytes (OFXFile composition) + TLC model check of the clause set against a reference composition and its single deviations",
            "TLC checks on OFXCompose that a reference composition satisfies every clause for all request sequences up to the bound and that each single deviation (wrapper dropped/added, same-kind wrappers swapped, TRNUID repeated, wrong message set, CLIENTUID below 1.0.3, wrong password) falsifies one; seeded client configurations (all 11 versions, formats, identity subsets, credentials and ids with markup characters) x request mixes up to 12 plus account-info/profile/tax calls are composed with dryrun=True, and TLC reads the returned bytes itself and evaluates the clauses (header version, one sign-on with exactly the supplied identity, one wrapper per request under the right message set, per-kind order and contents, distinct TRNUIDs, 2xx refuses unclosed).",
            "Trusted: TLC, the three file layers, the clause reading of the property. The relative order of different kinds inside a message set is left free; INVSTMTRQ may omit INCTRAN when transactions are not wanted.",
            "DESIGN.md section 6 C06"),
    "C19": ("TLA+ OFXCompose selection rule (command line > ACTIVE accounts of the account-information response > configuration) evaluated by TLC on the statement request ofxget really emits, compared per kind as a bag",
            "Seeded account multisets per type from the command line, the user configuration, or (--all) a fake server's account-information response with any status mix, x stmt/stmtend x dates x include flags are run through ofxget's real argument parser, merge_config and handlers (modules re-imported per run); the request ofxget prints or POSTs is read by TLC (OFXFile) and each kind's wrappers are compared as a bag (account id, type, bank/broker id, dates as instants, flags) with the selection the specification computes - none missing, duplicated, of another type, or inactive.",
            "Trusted: TLC, the selection reading of the property, the fake server responses (built from TLC's minimal documents). With --all the user configuration lists no accounts (the property is silent on mixing them); one bank id / broker id per response.",
            "DESIGN.md section 6 C19"),
    "C18": ("TLA+ OFXGetConfig state machine (user file x FI database x OFX Home x defaults): TLC model check of Precedence/Persist/stores-nothing/uid-stable over run histories + TLC-simulated histories replayed on the real ofxget + stateful trace validation of every run",
            "TLC checks on MC_GetConfig, over all histories of runs, that the reference write rule satisfies Precedence, Persist, DryStoresNothing, NoWriteStoresNothing, UidStable and OtherServersUntouched (and refutes the never-drop rule the library used to have). Behaviours simulated by TLC and seeded random histories (URLs with %, values equal to defaults, lists, booleans, versions; every subset of sources) are replayed on the real argument parser, merge_config, handlers and write_config with modules re-imported per run; the stateful trace specification carries the user file and default CLIENTUID and judges each run's effective settings and the file it leaves.",
            "Trusted: TLC, the reading of the precedence chain, the independent INI reading of ofxget.cfg, the fakes at OFXClient.post_request and at OFX Home (two thirds of the histories run the real ofxhome.lookup over a fake OFX Home serving XML records, the rest fake ofxhome.lookup itself). Account ids containing commas, booleans set back to false and options given as the empty text (\"explicitly nothing\": outranks lower sources, cannot be persisted) are outside what the file can express. The first --write may introduce the generated default CLIENTUID.",
            "DESIGN.md section 6 C18"),
    "C14": ("TLA+ OFXNet exchange machine (clients, hosts, cookie jars, advertised URL): TLC model check of the routing/cookie invariants + TLC-simulated histories replayed against fake servers under urllib's opener + stateful trace validation reading every POST body",
            "TLC checks on MC_Net, over all histories of calls by two clients, NoPostOnDryRun, OnePostPerRequest, ProfileIsAnonymous, ProfileGoesToConfiguredUrl, CredentialsOnlyWhereAllowed, CookieIsolation and CookieReplay. TLC-simulated and seeded histories (request kinds x dry/skip/normal x advertised URL same/different x cookie-setting hosts x up to 3 clients) are executed on real OFXClient instances against fake servers installed below urllib's opener; the stateful trace specification carries the jars and issued cookies, predicts the POSTs of every call (host, cookie value) and reads each POST body itself (OFXFile) to decide the request kind and whose credentials it carries; method and headers are checked per POST.",
            "Trusted: TLC, the fake transport (only http_open/https_open replaced), the file layers. The urllib transport is the one installed here (requests is absent). Profiles may leave statement message sets out and may not offer closing statements; the advertised service URL has mixed-case path characters and POSTs are identified by their exact URL (other server behaviours belong to C15).",
            "DESIGN.md section 6 C14"),
    "C15": ("TLA+ ProfileCache protocol with the write variant and cache-key relation DETECTED on the real code: TLC explores 2 clients x server behaviours x crashes x interleavings; counterexamples are replayed on the real code by a step scheduler at the I/O boundary; independent scheduler exploration validated by a property-level stateful trace spec",
            "The harness observes the real request_profile at its I/O boundary (builtins.open / os.replace / post_request wrapped from outside) to detect the write protocol (in place or write-aside-and-rename) and whether two clients with equal ORG/FID but different URLs share a cache file; TLC model-checks the protocol specification instantiated with those constants (2 clients, 1 crash, 3-4 calls, all interleavings; ~1M states) for CacheWholeOrAbsent, CacheNeverVanishes, CacheNeverOlder, SuccessFromOwnServer, AskedWithHeldDate, CacheBelongsToServer, FailureLeavesCache, StartNeverFailsOnCache, and every counterexample (JSON trace) is driven through the real code by the step scheduler. Independently the scheduler explores the real code - behaviour sequences (<= 3 exhaustively, <= 6 sampled) with fresh/restarted clients, a crash after each I/O step followed by further calls, interleavings of two writers, client pairs with equal/different ORG/FID/URL - and every I/O step and result is judged by the property-level trace specification.",
            "Trusted: TLC, the protocol and property specifications, the scheduler (yield points only at I/O on the cache directory and at the network exchange; writes are unbuffered and split in two so torn writes are observable), byte-equality classification of cache files against the profiles the fake servers sent. Preemption inside pure-Python sections is not enumerated (they do not touch the cache). One known finding: concurrent lost update.",
            "DESIGN.md section 6 C15"),
    "C17": ("TLA+ Purity: model of the shared dispatch table (TLC: history independence) + memo-table trace specification validating recorded executions from fresh interpreters, varied in-process histories, repetition and 2-16 threads",
            "TLC checks on the Purity model that the class-level dispatch table re-registered by every DateTime string conversion cannot make a later write depend on the conversion history. Workloads (parse / convert / to_etree / serialize of TLC-simulated documents of all classes incl. invalid ones and documents with vendor / renamed elements; date-time, decimal and string conversions) run in two fresh interpreters in different orders, in-process after other workloads, repeated, and in 2-16 threads at a 1 microsecond switch interval; every call logs digests of input (before and after) and result, and TLC validates the merged trace against the memo specification: same input => same result, input unchanged.",
            "Trusted: TLC, the digests (sha1 of bytes / ElementTree text / model projection). Real thread interleavings are observed, not enumerated: a race that does not manifest in the observed runs is not detected (DESIGN section 8).",
            "DESIGN.md section 6 C17"),
}

PENDING = {}


def main():
    props = [json.loads(l) for l in open(os.path.join(VERIF, "properties.jsonl"))]
    checks = []
    na = []
    for p in props:
        pid = p["id"]
        if pid in CHECKS:
            tech, text, note, ref = CHECKS[pid]
            checks.append({
                "property_id": pid,
                "quick_cmd": "./check %s --tier quick" % pid,
                "thorough_cmd": "./check %s --tier thorough" % pid,
                "evidence_file": "/verif/evidence/%s.json" % pid,
                "replay_cmd_template": "./check %s --replay {path}" % pid,
                "engine": "tlc+replay",
                "level_claimed": {"category": "model_checking", "text": text, "design_ref": ref},
                "level_note": note,
                "technique": tech,
            })
        else:
            na.append({"property_id": pid,
                       "reason": PENDING.get(pid, "check designed (DESIGN.md section 6) but not yet built; not claimed until its check runs")})
    m = {
        "version": 1,
        "setup_cmd": "./setup.sh",
        "hooks": {
            "guard": "OFXTOOLS_VERIF",
            "enable": "no in-tree hooks: the harness intercepts at stdlib boundaries from outside (DESIGN.md 4.4); checks export OFXTOOLS_VERIF=1 for forward compatibility",
            "baseline_off_cmd": BASE,
            "source_commits": [],
            "add_only": True,
        },
        "engines": [{"name": "tlc+replay", "path": "/verif/check",
                     "serves_properties": sorted(CHECKS),
                     "kind_free_text": "explicit TLA+ specification (spec/*.tla) model-checked by TLC; TLC-generated behaviours replayed into ofxtools and traces recorded from ofxtools validated by TLC trace specs"}],
        "checks": checks,
        "not_applicable": na,
        "notes": "Known findings: KNOWN_FINDINGS.json. Exit 2 = machinery failure. See DESIGN.md.",
    }
    with open(os.path.join(VERIF, "MANIFEST.json"), "w") as f:
        json.dump(m, f, indent=1)
    print("checks:", len(checks), "not_applicable:", len(na))


main()
