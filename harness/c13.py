"""C13 - every child a model class declares can actually be built, written and read back.

M: MC_Schema: first-order invariants over the exported declarations of all 390 classes (child
   named after its class, class found by tag, exclusivity groups well-formed and in force,
   list children adjacent, repeated data elements inside ElementList), and the minimal document
   of every class is accepted by the document machine.
G: per-child probe for each of the ~2100 declared children: MinDoc(c) (computed by TLC) extended
   with that child -> construct -> to_etree -> from_etree.
T: both constructions are judged by TLC (Trace_Doc): accepted, the child sits in its attribute,
   the re-read model equals the first one.
"""
import copy

import doc_common as dc
import export_schema
from core import MachineryError

STATIC = ["MinDocAccepted", "ChildNamedAfterClass", "FoundByTag", "NoDuplicateTags", "GroupsWellFormed",
          "GroupsInForce", "ListRunsTellMembersApart", "ListElementsInElementList", "DeclarationsWellFormed"]


def sample(types, tid):
    return export_schema.sample_text(types[int(tid[1:])])


def add_child(base, cls, a, schema, types, mins):
    """MinDoc(cls) (nested) with child `a` present; None if not constructible here"""
    node = copy.deepcopy(base)
    attrs = schema[cls]["attrs"]
    idx = {x["tag"]: i for i, x in enumerate(attrs)}
    new = [a["tag"], sample(types, a["ty"]), []] if a["k"] in ("elem", "lelem") else copy.deepcopy(mins[a["cls"]])
    present = [k[0] for k in node[2]]
    if a["k"] in ("lagg", "lelem"):
        # one (more) member in the list slot: after the last present child that is not behind the slot
        pos = 0
        for j, k in enumerate(node[2]):
            if idx.get(k[0], -1) <= idx[a["tag"]] or attrs[idx[k[0]]]["k"] in ("lagg", "lelem"):
                pos = j + 1
        if cls == "ACCTINFO" and a["tag"] in present:
            return node
        node[2].insert(pos, new)
        return node
    if a["tag"] in present:
        return node
    # exclusivity groups: drop the present partner(s)
    drop = set()
    for g in schema[cls]["om"] + schema[cls]["rm"]:
        if a["a"] in g:
            drop |= {x.upper() for x in g if x != a["a"]}
    if cls == "SONRQ" and a["a"] == "userkey":
        drop |= {"USERID", "USERPASS"}
    if cls == "SONRQ" and a["a"] == "userid":
        pass
    if cls == "CONTRIBSECURITY" and a["a"] != "secid":
        drop |= {x["tag"] for x in attrs if x["a"] != "secid" and x["a"][-3:] != a["a"][-3:]}
    if cls == "OFX":
        suffix = a["a"][-4:]
        drop |= {x["tag"] for x in attrs if x["a"][-4:] != suffix}
        if suffix == "rsv1" and a["a"] != "signonmsgsrsv1":
            son = next(x for x in attrs if x["a"] == "signonmsgsrsv1")
            node[2] = [copy.deepcopy(mins[son["cls"]])]
            present = [k[0] for k in node[2]]
    ren = {"FROM": "FROM", "YIELD": "YIELD"}
    node[2] = [k for k in node[2] if k[0] not in drop]
    if cls == "EXTDPAYEE" and a["a"] == "payeeid":
        for extra in ("idscope", "name"):
            x = next(y for y in attrs if y["a"] == extra)
            if x["tag"] not in [k[0] for k in node[2]]:
                node[2].append([x["tag"], sample(types, x["ty"]), []])
    if cls == "TAX1099R_V100" and a["a"] in ("grossdist", "taxamt", "fedtaxwh"):
        x = next(y for y in attrs if y["a"] == "irasepsimp")
        node[2].append([x["tag"], sample(types, x["ty"]), []])
    node[2].append(new)
    node[2].sort(key=lambda k: idx.get(k[0], 10 ** 6))     # stable: list members keep their order
    return node


def run(ctx):
    schema, types = export_schema.write(ctx)
    ctx.rule = ("static: one TLC state per class (390), each invariant a first-order formula over the declarations; probe: "
                "one document per declared child (all classes x all attributes, unsupported children excepted), built, "
                "written and read back; non-trivial = distinct (class, child) probes the specification accepts")
    cfg = "SPECIFICATION Spec\n" + "\n".join("INVARIANT " + i for i in STATIC) + "\n"
    import subprocess  # noqa
    # -continue: report every class that violates an invariant, not only the first
    r = ctx.tlc("MC_Schema", cfg, tag="static", expect_ok=False, workers=4, extra=["-continue"])
    viol = []
    lines = r.out.splitlines()
    for i, l in enumerate(lines):
        if l.startswith("Error: Invariant") and "violated" in l:
            inv = l.split()[2]
            cls = lines[i + 1].split('"')[1] if i + 1 < len(lines) and '"' in lines[i + 1] else "?"
            viol.append((inv, cls))
    if r.distinct < len(schema):
        raise MachineryError("MC_Schema did not visit every class:\n" + r.out[-2000:])
    for inv, cls in viol:
        ctx.fail({"clause": "static-" + inv, "class": cls, "what": "schema invariant %s violated by class %s" % (inv, cls)})
    ctx.extra["static_invariants"] = STATIC
    ctx.extra["classes"] = len(schema)
    mins, _ = dc.mindocs(ctx)
    evs = []
    nprobe = 0
    for cls in sorted(schema):
        for a in schema[cls]["attrs"]:
            if a["k"] == "unsup":
                continue
            node = add_child(mins[cls], cls, a, schema, types, mins)
            doc = dc.from_nested(node)
            label = "%s.%s" % (cls, a["a"])
            e = dc.ev_doc("p%d" % nprobe, doc, schema, route="etree", label=label, expect="accept")
            e["probe"] = label
            evs.append(e)
            if e["out"]["ok"]:
                # written by the library, read back by the library
                from ofxtools.models.base import Aggregate
                inst = Aggregate.from_etree(dc.to_etree(doc))
                try:
                    doc2 = dc.etree_to_doc(inst.to_etree())
                    e2 = dc.ev_doc("p%dw" % nprobe, doc2, schema, route="etree", label=label + " rewritten", expect="accept",
                                   twin=e["out"]["inst"])
                    evs.append(e2)
                    if e2["out"]["warn"] or e["out"]["warn"]:
                        ctx.fail({"clause": "probe-unknown-tag-warning", "class": cls, "child": a["a"],
                                  "what": "declared child %s skipped as unknown" % label})
                except Exception as ex:
                    ctx.fail({"clause": "probe-write", "class": cls, "child": a["a"],
                              "what": "to_etree failed for %s: %r" % (label, ex)})
            nprobe += 1
            ctx.nontrivial.add(label)
    # classes with several repeated children: one member of each, and every optional child declared between the first
    # and the last of them, all at once (list children need not be adjacent: members are written run by run)
    for cls in sorted(schema):
        attrs = schema[cls]["attrs"]
        li = [i for i, a in enumerate(attrs) if a["k"] in ("lagg", "lelem")]
        if len(li) < 2:
            continue
        node = copy.deepcopy(mins[cls])
        for a in attrs[li[0]:li[-1] + 1]:
            if a["k"] == "unsup" or a["tag"] in [k[0] for k in node[2]] and a["k"] not in ("lagg", "lelem"):
                continue
            if any(a["a"] in g and any(x != a["a"] and next((y for y in attrs if y["a"] == x), {"tag": None})["tag"] in [k[0] for k in node[2]]
                                         for x in g) for g in schema[cls]["om"] + schema[cls]["rm"]):
                continue
            try:
                node = add_child(node, cls, a, schema, types, mins)
            except Exception:
                continue
        # ... in declaration order, and with the members of every run of adjacent list children in reverse order
        # (members of a run may come in any order; what the library writes from such an instance must read back)
        ltags = {a["tag"] for a in attrs if a["k"] in ("lagg", "lelem")}
        rev = copy.deepcopy(node)
        kids, i = rev[2], 0
        while i < len(kids):
            j = i
            while j < len(kids) and kids[j][0] in ltags:
                j += 1
            if j - i > 1:
                kids[i:j] = kids[i:j][::-1]
            i = max(j, i + 1)
        # ... and a member repeated with another one in between (first, second, first): fine for most classes, refused where
        # a class wants its members distinct - wherever they stand
        rep = None
        laggs_ = [a for a in attrs if a["k"] == "lagg" and a["cls"] in mins]
        one_run = all(attrs[i]["k"] in ("lagg", "lelem", "unsup") for i in range(li[0], li[-1] + 1))
        if len(laggs_) >= 2 and one_run:       # (members of separated runs are written run by run: no interleaving to keep)
            idx_ = {x["tag"]: i for i, x in enumerate(attrs)}
            base_kids = [k for k in copy.deepcopy(mins[cls])[2] if k[0] not in ltags]
            mem = [copy.deepcopy(mins[laggs_[0]["cls"]]), copy.deepcopy(mins[laggs_[1]["cls"]]), copy.deepcopy(mins[laggs_[0]["cls"]])]
            pos = len([k for k in base_kids if idx_.get(k[0], 10 ** 6) < li[0]])
            rep = [cls, None, base_kids[:pos] + mem + base_kids[pos:]]
        for variant, vnode in (("", node), (" reversed", rev)) + (((" member repeated apart", rep),) if rep else ()):
            doc = dc.from_nested(vnode)
            label = "%s.<all-list-children%s>" % (cls, variant)
            e = dc.ev_doc("q%d%s" % (nprobe, variant[1:3].strip()), doc, schema, route="etree", label=label, expect="")
            evs.append(e)
            if e["out"]["ok"]:
                from ofxtools.models.base import Aggregate
                inst = Aggregate.from_etree(dc.to_etree(doc))
                try:
                    doc2 = dc.etree_to_doc(inst.to_etree())
                    evs.append(dc.ev_doc("q%d%sw" % (nprobe, variant[1:3].strip()), doc2, schema, route="etree", label=label + " rewritten", expect="accept",
                                         twin=e["out"]["inst"]))
                except Exception as ex:
                    ctx.fail({"clause": "probe-write", "class": cls, "child": "<all-list-children>", "what": "to_etree failed for %s: %r" % (label, ex)})
            ctx.nontrivial.add(label)
        nprobe += 1
    # the same probes in a fresh interpreter in which the abstract base classes (TrnRq, TrnRs, the sync lists, ElementList ...)
    # were used BEFORE any concrete class: a declared child can be built whatever was inspected earlier
    import json as _json
    import subprocess
    import sys as _sys
    import os as _os
    from core import REPO
    firsts = [e for e in evs if "probe" in e]
    jobs = [{"id": "hb-" + e["id"], "doc": e["doc"], "route": "etree", "label": e["label"] + " (after the base classes were used)", "expect": "accept",
             "extra": {"probe": e["probe"]}} for e in firsts]
    jf, of = _os.path.join(ctx.work, "bases-first.jobs.json"), _os.path.join(ctx.work, "bases-first.out.json")
    _json.dump(jobs, open(jf, "w"))
    pr = subprocess.run([_sys.executable, _os.path.join(_os.path.dirname(__file__), "doc_worker.py"), REPO, _os.path.join(ctx.work, "schema.json"),
                         jf, of, "bases"], capture_output=True, text=True, timeout=1800,
                        env=dict(_os.environ, PYTHONHASHSEED="0", PYTHONDONTWRITEBYTECODE="1"))
    if pr.returncode != 0:
        raise MachineryError("doc_worker failed: " + pr.stderr[-1500:])
    hb = _json.load(open(of))
    evs += hb
    ctx.extra["probes_repeated_after_base_classes_were_used"] = len(hb)
    ctx.extra["children_probed"] = nprobe
    ctx.exhaustive = True
    ctx.evaluations = len(evs)
    for e in evs[:2]:
        ctx.sample({"probe": e["label"], "doc": dc.doc_text(e["doc"]), "ok": e["out"]["ok"]})
    mism = ctx.validate_trace("Trace_Doc", evs)
    byid = {e["id"]: e for e in evs}
    for eid, clauses in mism.items():
        e = byid[eid]
        cls, _, child = e["label"].split(" ")[0].partition(".")
        for cl in clauses:
            ctx.fail({"clause": "probe-" + cl.split(" [")[0], "detail": cl, "class": cls, "child": child,
                      "doc": dc.doc_text(e["doc"])[:500], "exc": e["out"].get("exc", ""),
                      "what": "%s doc=%s exc=%s" % (cl, dc.doc_text(e["doc"])[:300], e["out"].get("exc", ""))})
