"""C19 - ofxget requests exactly the configured or discovered accounts and given dates.

M: MC_Compose (the clause machinery) - the selection rule Selected(e) of OFXCompose: command line,
   then (with --all) the ACTIVE accounts of the account-information response, then the configuration.
G/T: seeded multisets of accounts per type (command line / user configuration / discovered through a
   fake server answering ACCTINFORQ with any mix of bank, credit-card and investment accounts in any
   service status) x date and include options, through ofxget's real argument parser, merge_config and
   the stmt / stmtend handlers; the statement request that ofxget prints (dry run) or POSTs (--all) is
   read by TLC and compared, per kind, as a bag with the selection the specification computes.
"""
import random

import doc_common as dc
import export_schema
import file_common as fc
import ofx_server
import ofxget_env
from core import cps, MachineryError

TYPES = ["checking", "savings", "moneymrkt", "creditline", "creditcard", "investment"]
OPT = {"checking": "-C", "savings": "-S", "moneymrkt": "-M", "creditline": "-L", "creditcard": "-c", "investment": "-i"}
STATUSES = ["ACTIVE", "ACTIVE", "PEND", "AVAIL"]


def acct(rnd):
    s = "".join(rnd.choice("0123456789ABCxyz-_. ") for _ in range(rnd.randrange(1, 12))).strip().lstrip("-")
    return s.strip() or "7"


def run(ctx):
    import io
    from ofxtools.Parser import OFXTree
    quick = ctx.tier == "quick"
    schema, types = export_schema.write(ctx)
    mins, _ = dc.mindocs(ctx)
    rnd = random.Random(ctx.seed * 472882027 + 19)
    ctx.rule = ("cases = seeded account multisets per type from the command line, the user configuration or (--all) an "
                "account-information response with any status mix, x stmt / stmtend x dates x include flags; the request ofxget "
                "emits is compared per kind as a bag with the specification's selection; non-trivial = distinct (request, "
                "source of accounts, number of accounts per type, status mix)")
    r = ctx.tlc("MC_Compose", "SPECIFICATION Spec\nCONSTANT MaxReq = 1\nINVARIANT ClausesHold\nINVARIANT DropDetected\n", tag="mc")
    if r.violated:
        raise MachineryError("MC_Compose: %s" % r.violated)
    env = ofxget_env.Env(ctx.work + "/ofxget")
    evs = []
    N = 250 if quick else 4000
    for i in range(N):
        request = rnd.choice(["stmt", "stmtend"])
        use_all = rnd.random() < 0.45
        version = rnd.choice([102, 103, 160, 203, 220])
        fidb = "[srv]\nurl = https://fi.invalid/ofx\nversion = %d\norg = ORG\nfid = 1\n" % version
        env.write_fidb(fidb)
        cli = {t: [] for t in TYPES}
        cfg = {t: [] for t in TYPES}
        for t in TYPES:
            if request == "stmtend" and t == "investment":
                continue
            k = rnd.random()
            if k < 0.25:
                cli[t] = [acct(rnd) for _ in range(rnd.randrange(1, 4))]
            elif k < 0.5 and not use_all:
                cfg[t] = [acct(rnd) for _ in range(rnd.randrange(1, 4))]
        if rnd.random() < 0.1 and cli["checking"]:
            cli["checking"].append(cli["checking"][0])       # a duplicate on the command line is a multiset
        cli_bankid = rnd.choice(["", "", "111"])
        cfg_bankid = rnd.choice(["", "222"])
        cli_broker = rnd.choice(["", "b.cli"])
        cfg_broker = rnd.choice(["", "b.cfg"])
        if not use_all:
            # a bank / investment request needs an id from somewhere
            if not (cli_bankid or cfg_bankid):
                cfg_bankid = "222"
            if not (cli_broker or cfg_broker):
                cfg_broker = "b.cfg"
        infos = []
        if use_all:
            for _ in range(rnd.randrange(0, 7)):
                kind = rnd.choice(["bank", "bank", "cc", "inv"])
                infos.append({"kind": kind, "acctid": acct(rnd), "accttype": rnd.choice(["CHECKING", "SAVINGS", "MONEYMRKT", "CREDITLINE", "CHECKING", "SAVINGS", "CD"]) if kind == "bank" else "",
                              "instid": {"bank": "999", "cc": "", "inv": "brk.srv"}[kind], "status": rnd.choice(STATUSES), "suptxdl": rnd.choice(["Y", "Y", "N"])})
            if rnd.random() < 0.25:
                for x in infos:
                    if x["kind"] == "bank":
                        x["status"] = rnd.choice(["PEND", "AVAIL"])       # every bank account inactive
            if not any(x["kind"] == "bank" and x["status"] == "ACTIVE" for x in infos) and not (cli_bankid or cfg_bankid):
                cfg_bankid = "222"
            if not any(x["kind"] == "inv" and x["status"] == "ACTIVE" for x in infos) and not (cli_broker or cfg_broker):
                cfg_broker = "b.cfg"
        lines = ["[srv]", "user = usr"]
        for t in TYPES:
            if cfg[t]:
                lines.append("%s = %s" % (t, ", ".join(cfg[t])))
        if cfg_bankid:
            lines.append("bankid = " + cfg_bankid)
        if cfg_broker:
            lines.append("brokerid = " + cfg_broker)
        env.write_usercfg("\n".join(lines) + "\n")
        dts = {k: rnd.choice(["", "20200101", "20191231235959.123[-5:EST]", "20240229120000"]) for k in ("start", "end", "asof")}
        if request == "stmtend":
            dts["asof"] = ""
        flags = {"inctran": True, "incbal": True, "incpos": True, "incoo": False}
        argv = [request, "srv", "--password", "pw"]
        for t in TYPES:
            for a in cli[t]:
                argv += [OPT[t], a]
        if cli_bankid:
            argv += ["--bankid", cli_bankid]
        if cli_broker and request == "stmt":
            argv += ["--brokerid", cli_broker]
        if request == "stmtend":
            cli_broker = ""
        for k, o in (("start", "-s"), ("end", "-e"), ("asof", "-a")):
            if dts[k]:
                argv += [o, dts[k]]
        if request == "stmt":
            if rnd.random() < 0.3:
                argv.append("--no-transactions"); flags["inctran"] = False
            if rnd.random() < 0.3:
                argv.append("--no-balances"); flags["incbal"] = False
            if rnd.random() < 0.3:
                argv.append("--no-positions"); flags["incpos"] = False
            if rnd.random() < 0.3:
                argv.append("--open-orders"); flags["incoo"] = True
        if use_all:
            argv.append("--all")
            if rnd.random() < 0.7:
                argv.append("--skipprofile")

            def responder(url, body, infos=infos):
                if b"<ACCTINFORQ>" in body:
                    return ofx_server.acctinfo(mins, infos).encode()
                if b"<PROFRQ>" in body:
                    return ofx_server.profile(mins, "https://fi.invalid/ofx").encode()
                return ofx_server.empty_response(mins).encode()
            env.responder = responder
        else:
            argv.append("--dryrun")
            env.responder = None
        env.debug_logging = rnd.random() < 0.3        # (verbosity changes what is logged, never what is requested)
        res = env.run(argv)
        env.debug_logging = False
        if use_all:
            stm = [p for p in res["posts"] if b"<ACCTINFORQ>" not in p["body"] and b"<PROFRQ>" not in p["body"]]
            data = stm[-1]["body"] if stm else b""
        else:
            data = res["stdout"].strip().encode()
        sel = {"request": request, "all": use_all,
               "cli": dict({t: [cps(a) for a in cli[t]] for t in TYPES}, bankid=cps(cli_bankid), brokerid=cps(cli_broker)),
               "cfg": dict({t: [cps(a) for a in cfg[t]] for t in TYPES}, bankid=cps(cfg_bankid), brokerid=cps(cfg_broker)),
               "infos": [{"kind": x["kind"], "acctid": cps(x["acctid"]), "accttype": cps(x["accttype"]), "instid": cps(x["instid"]),
                          "status": cps(x["status"])} for x in infos],
               "dt": {k: cps(v) for k, v in dts.items()}, "flags": flags}
        ev = {"id": "s%d" % i, "op": "compose", "call": "select", "sel": sel, "cfg": {"version": version},
              "password": cps("pw"), "reqs": [], "years": [], "acctnum": [], "recid": [], "dtacctup": {"t": "none"},
              "wrote": bool(data), "file": list(data), "exc": res["exc"], "back": {"ok": False, "inst": fc.EMPTY, "exc": ""},
              "argv": " ".join(argv)}
        if data:
            try:
                p = OFXTree()
                p.parse(io.BytesIO(data))
                ev["back"] = {"ok": True, "inst": dc.project_inst(p.convert(), schema), "exc": ""}
            except Exception as e:
                ev["back"] = {"ok": False, "inst": fc.EMPTY, "exc": type(e).__name__}
        evs.append(ev)
        ctx.nontrivial.add((request, use_all, tuple(len(cli[t]) for t in TYPES), tuple(len(cfg[t]) for t in TYPES),
                            tuple(sorted((x["kind"], x["status"]) for x in infos))))
    ctx.evaluations = len(evs)
    for e in evs[:2]:
        ctx.sample({"argv": e["argv"], "infos": [(x["kind"], x["status"]) for x in e["sel"]["infos"]] if e["sel"]["all"] else None,
                    "request": bytes(e["file"]).decode("utf8", "replace")[-400:]})
    mism = ctx.validate_trace("Trace_Compose", evs)
    byid = {e["id"]: e for e in evs}
    for eid, clauses in mism.items():
        e = byid[eid]
        inactive_only = e["sel"]["all"] and any(True for _ in e["sel"]["infos"])
        for cl in clauses:
            ctx.fail({"clause": cl.split(" ")[0], "detail": cl, "argv": e["argv"], "all": e["sel"]["all"], "exc": e["exc"],
                      "infos": [(bytes(x["kind"], "ascii").decode(), "".join(map(chr, x["status"]))) for x in e["sel"]["infos"]],
                      "what": "%s argv=[%s] exc=%s request=%r" % (cl, e["argv"], e["exc"], bytes(e["file"]).decode("utf8", "replace")[-300:])})
