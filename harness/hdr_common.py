"""Recorder for ofxtools.header: parse_header / make_header / constructors, projected to the
abstract records of OFXHeader.tla."""
import io

from core import cps, uncps


def project_header(h):
    from ofxtools import header
    if isinstance(h, header.OFXHeaderV1):
        f = {"ofxheader": cps(str(h.ofxheader)), "data": cps(h.data), "version": cps(str(h.version)),
             "security": cps(h.security), "encoding": cps(h.encoding), "charset": cps(h.charset),
             "compression": cps(h.compression), "oldfileuid": cps(h.oldfileuid), "newfileuid": cps(h.newfileuid)}
        return 1, f
    f = {"ofxheader": cps(str(h.ofxheader)), "version": cps(str(h.version)), "security": cps(h.security),
         "oldfileuid": cps(h.oldfileuid), "newfileuid": cps(h.newfileuid)}
    return 2, f


def ev_parse(eid, data):
    from ofxtools import header
    try:
        h, body = header.parse_header(io.BytesIO(data))
        kind, f = project_header(h)
        out = {"st": "ok", "kind": kind, "f": f, "body": cps(body)}
    except Exception as e:
        out = {"st": "err", "exc": type(e).__name__}
    return {"id": eid, "op": "parse", "file": list(data), "out": out}


def ev_make(eid, version, security, olduid, newuid):
    """version: str or int as passed; security/uids: str"""
    from ofxtools import header
    try:
        h = header.make_header(version, security=security, oldfileuid=olduid, newfileuid=newuid)
        kind, _ = project_header(h)
        out = {"st": "ok", "kind": kind, "text": cps(str(h))}
    except Exception as e:
        out = {"st": "err", "exc": type(e).__name__}
    return {"id": eid, "op": "make", "version": cps(str(version)), "security": cps(security),
            "olduid": cps(olduid), "newuid": cps(newuid), "out": out}


def ev_ctor(eid, kind, f):
    from ofxtools import header
    try:
        if kind == 1:
            header.OFXHeaderV1(f["version"], ofxheader=f["ofxheader"], data=f["data"], security=f["security"],
                               encoding=f["encoding"], charset=f["charset"], compression=f["compression"],
                               oldfileuid=f["oldfileuid"], newfileuid=f["newfileuid"])
        else:
            header.OFXHeaderV2(f["version"], ofxheader=f["ofxheader"], security=f["security"],
                               oldfileuid=f["oldfileuid"], newfileuid=f["newfileuid"])
        out = {"st": "ok"}
    except Exception as e:
        out = {"st": "err", "exc": type(e).__name__}
    return {"id": eid, "op": "ctor", "kind": kind, "f": {k: cps(v) for k, v in f.items()}, "out": out}


def describe(e):
    d = {"op": e["op"]}
    if "file" in e:
        d["file"] = repr(bytes(e["file"]))
    for k in ("version", "security", "olduid", "newuid"):
        if k in e:
            d[k] = uncps(e[k])
    if "f" in e:
        d["fields"] = {k: uncps(v) for k, v in e["f"].items()}
    o = dict(e["out"])
    if "body" in o:
        o["body"] = uncps(o["body"])
    if "text" in o:
        o["text"] = uncps(o["text"])
    if "f" in o:
        o["f"] = {k: uncps(v) for k, v in o["f"].items()}
    d["out"] = o
    return d


def judge(ctx, evs):
    mism = ctx.validate_trace("Trace_Header", evs)
    byid = {e["id"]: e for e in evs}
    for eid, clauses in mism.items():
        d = describe(byid[eid])
        for cl in clauses:
            ctx.fail(dict(d, clause=cl, what="%s: %s" % (cl, d)))
