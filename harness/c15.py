"""C15 - the cached FI profile is always whole, the newest, and from the right server.

M:  MC_ProfileCache: the write protocol DETECTED on the real code (in-place / write-aside-and-rename)
    and the cache-key relation DETECTED on the real code (do two clients with equal ORG/FID and
    different URLs share a cache file?) are substituted into the protocol specification; TLC explores
    2 clients x server behaviours x crashes x all interleavings and checks CacheWholeOrAbsent,
    CacheNeverVanishes, CacheNeverOlder, SuccessFromOwnServer, AskedWithHeldDate, CacheBelongsToServer,
    FailureLeavesCache, StartNeverFailsOnCache.
G:  every counterexample TLC finds is REPLAYED on the real code: the step scheduler (pc_sched) drives
    real request_profile calls through the schedule, crash point and server behaviours of the trace.
T:  independently of any variant the scheduler explores the real code: every sequence of server
    behaviours (length <= 3 exhaustively, <= 6 sampled) with fresh / restarted clients, a crash after
    each I/O step of a writing call followed by further calls, interleavings of two writers' I/O steps,
    pairs of clients with equal or different ORG/FID/URL; every I/O step (with the abstract content of
    the cache file after it) and every result is validated by the property-level Trace_ProfileCache.
"""
import itertools
import json
import os
import random
import shutil
import sys
from pathlib import Path

import doc_common as dc
import export_schema
import ofx_server
import pc_sched
from core import MachineryError

KINDS = ["bumpnewer", "newer", "older", "uptodate", "error", "garbage", "invalid", "neterr"]


class World:
    """one scenario: data directory, servers, scheduler, event log"""

    def __init__(self, ctx, mins, name):
        import ofxtools.config as config
        self.dir = Path(ctx.work) / "pc" / name
        shutil.rmtree(self.dir, ignore_errors=True)
        self.dir.mkdir(parents=True)
        config.DATADIR = self.dir
        self.mins = mins
        # s2: another host; s3: the same host as s1, another path (two institutions at one provider);
        # s4: the same host and path, another port
        self.servers = {"s1": pc_sched.Server("s1", mins, ofx_server),
                        "s2": pc_sched.Server("s2", mins, ofx_server),
                        "s3": pc_sched.Server("s3", mins, ofx_server, url="https://s1.invalid/other/ofx"),
                        "s4": pc_sched.Server("s4", mins, ofx_server, url="https://s1.invalid:8443/ofx"),
                        # s5: the same host, port and path as s1 - another tenant named in the query string only
                        "s5": pc_sched.Server("s5", mins, ofx_server, url="https://s1.invalid/ofx?cl=tenant5")}
        self.sched = pc_sched.Sched(self.dir)
        self.events = []
        self.n = 0
        self.kind = {}       # tid -> behaviour of the server for that call
        self.asked = {}
        self.sentdt = {}
        self.posted = {}
        self.tsrv = {}
        self.tkey = {}
        self.start = {}
        self.keypaths = {}   # path -> key name
        self.name = name

        def handler(tid, url, body):
            srv = self.servers[self.tsrv[tid]]
            self.asked[tid] = pc_sched.asked_dt(body)
            self.posted[tid] = True
            data = srv.answer(self.kind[tid])
            self.sentdt[tid] = srv.sent.get(data, 0)
            return data
        self.sched.post_handler = handler

    def client(self, srv, org="ORG", fid="FID"):
        from ofxtools.Client import OFXClient
        c = OFXClient(self.servers[srv].url, org=org, fid=fid, version=203)
        sched = self.sched
        c.post_request = lambda url, data, timeout, _c=c: sched.post(sched.local.tid, url, data)
        return c

    def cachefile(self):
        d = self.dir / "fiprofiles"
        return sorted(str(p) for p in d.glob("*.profrs")) if d.exists() else []

    def key_of(self, path):
        if path not in self.keypaths:
            self.keypaths[path] = "k%d" % (len(self.keypaths) + 1)
        return self.keypaths[path]

    def begin(self, tid, client, srv, kind, keypath=None, url=None):
        self.kind[tid] = kind
        self.tsrv[tid] = srv
        self.posted[tid] = False
        self.asked[tid] = -1
        self.sentdt[tid] = 0
        # (url: the per-call URL argument of request_profile - one client object asking another server)
        self.sched.spawn(tid, (lambda: client.request_profile(url=url).read()) if url else (lambda: client.request_profile().read()))

    def classify(self, path):
        return pc_sched.classify(path, self.servers.values())

    def log_io(self, tid, op, concurrent=False):
        """after thread tid performed op=(name, path)"""
        name, path = op
        if name == "post":
            return
        if path.endswith(".profrs"):
            cpath = path
        else:
            # an operation on a side file (temporary): look at the cache file it belongs to
            cands = [p for p in self.keypaths if os.path.basename(path).startswith(os.path.basename(p))]
            cpath = cands[0] if cands else None
            if cpath is None:
                base = os.path.basename(path).split(".profrs")[0] + ".profrs"
                cpath = os.path.join(os.path.dirname(path), base)
        key = self.key_of(cpath)
        self.tkey.setdefault(tid, (key, cpath))
        self.n += 1
        self.events.append({"id": "%s-e%d" % (self.name, self.n), "op": "io", "tid": tid, "step": name, "key": key,
                            "srv": self.tsrv[tid], "file": self.classify(cpath)})

    def log_ret(self, tid, concurrent=False, startfile=None, guesspath=None):
        st = self.sched.outcome(tid)
        key, cpath = self.tkey.get(tid, (None, None))
        if cpath is None:
            files = self.cachefile()
            cpath = guesspath or (files[0] if len(files) == 1 else None)
            key = self.key_of(cpath) if cpath else "k1"
        ok = st["result"] is not None and st["exc"] is None and not st["crashed"]
        prof = {"srv": "", "dt": 0}
        if ok:
            for s in self.servers.values():
                if st["result"] in s.sent:
                    prof = {"srv": s.name, "dt": s.sent[st["result"]]}
        self.n += 1
        end = self.classify(cpath) if cpath else {"k": "absent", "srv": "", "dt": 0}
        ev = {"id": "%s-r%d" % (self.name, self.n), "op": "ret", "tid": tid, "key": key, "srv": self.tsrv[tid], "kind": self.kind[tid],
              "asked": self.asked[tid], "posted": self.posted[tid], "sentdt": self.sentdt[tid], "ok": ok, "prof": prof,
              "startfile": startfile if startfile is not None else {"k": "absent", "srv": "", "dt": 0}, "endfile": end,
              "concurrent": concurrent, "crashed": st["crashed"], "exc": type(st["exc"]).__name__ if st["exc"] else "",
              "unchanged": True}
        if not st["crashed"]:
            self.events.append(ev)
        return ev

    def snapshot(self):
        d = self.dir / "fiprofiles"
        out = {}
        if d.exists():
            for p in sorted(d.glob("*.profrs")):
                out[str(p)] = p.read_bytes()
        return out

    def run_call(self, tid, client, srv, kind, crash_after=None, url=None):
        """a whole call, sequentially; crash_after = k: crash instead of performing the (k+1)-th I/O step.
        Returns the list of ops performed."""
        before = self.snapshot()
        self.begin(tid, client, srv, kind, url=url)
        ops = []
        startfile = None
        while self.sched.pending(tid) is not None:
            if crash_after is not None and len([o for o in ops if o[0] != "post"]) >= crash_after and self.sched.pending(tid)[0] != "post":
                self.sched.step(tid, crash=True)
                break
            op = self.sched.step(tid)
            ops.append(op)
            self.log_io(tid, op)
            if startfile is None and op[0] == "read":
                startfile = self.events[-1]["file"]
        ev = self.log_ret(tid, startfile=startfile)
        ev["unchanged"] = self.snapshot() == before
        if self.tkey.get(tid) is None:
            # the call never touched a cache file: nothing held, nothing stored
            ev["endfile"] = ev["startfile"]
        return ops


def detect(ctx, mins):
    """observe the write protocol and the key relation of the real code"""
    w = World(ctx, mins, "detect")
    w.sched.install()
    try:
        c1 = w.client("s1")
        ops = w.run_call("t1", c1, "s1", "newer")
        cache = w.cachefile()
        if len(cache) != 1:
            raise MachineryError("unmodelled shape: expected one cache file after a successful call, found %r" % cache)
        names = [(o[0], o[1] == cache[0]) for o in ops]
        if ("open-w", True) in names:
            variant = "inplace"
        elif ("replace", True) in names:
            variant = "atomic"
        else:
            raise MachineryError("unmodelled write protocol: %r" % ops)
        # same ORG/FID, another server URL (other host / same host other path / other port): same cache file?
        samekey = False
        for i, other in enumerate(("s2", "s3", "s4")):
            before = len(w.cachefile())
            w.run_call("t2%d" % i, w.client(other), other, "newer")
            if len(w.cachefile()) == before:
                samekey = True
        ops2 = w.run_call("t3", c1, "s1", "bumpnewer")
    finally:
        w.sched.uninstall()
    return variant, samekey, [o[0] for o in ops], [o[0] for o in ops2]


PC_CFG = """SPECIFICATION Spec
CONSTANTS
  Clients <- MC_Clients
  Servers <- MC_Servers
  Keys <- MC_Keys
  KeyOf <- MC_KeyOf
  SrvOf <- MC_SrvOf
  MaxDt = 3
  MaxCrash = 1
  MaxCalls = %d
  Variant = "%s"
  SameKey = %s
  SameServer = %s
%s
"""
SAFETY = ["INVARIANT CacheWholeOrAbsent", "INVARIANT SuccessFromOwnServer", "INVARIANT AskedWithHeldDate",
          "INVARIANT CacheBelongsToServer", "INVARIANT StartNeverFailsOnCache", "PROPERTY CacheNeverVanishes",
          "PROPERTY FailureLeavesCache"]


def replay_counterexample(ctx, mins, cex, name, samekey):
    """drive the real code through a TLC counterexample (list of (action, context, state-after))"""
    w = World(ctx, mins, name)
    w.sched.install()
    w.events.append({"id": name + "-env", "op": "env", "keys": ["k1", "k2"]})
    try:
        clients = {"c1": w.client("s1"), "c2": w.client("s1")}
        live = {}
        ncall = {"c1": 0, "c2": 0}
        startfile = {}
        for act, cx, state in cex:
            c = cx.get("c")
            srvname = None
            if c:
                srvname = "s1" if (state_srv(state, c) == "s1") else "s2"
            if act == "Start":
                ncall[c] += 1
                tid = "%s#%d" % (c, ncall[c])
                live[c] = tid
                cl = w.client(srvname)
                w.begin(tid, cl, srvname, "newer")
                startfile[tid] = None
                while w.sched.pending(tid) is not None and w.sched.pending(tid)[0] == "read":
                    op = w.sched.step(tid)
                    w.log_io(tid, op, concurrent=True)
                    startfile[tid] = w.events[-1]["file"]
            elif act == "ServerBump":
                w.servers[cx["s"]].dt += 1
            elif act == "Exchange":
                tid = live[c]
                w.kind[tid] = state["resp"][c]["kind"]
                if w.sched.pending(tid) is not None and w.sched.pending(tid)[0] == "post":
                    w.sched.step(tid)
            elif act in ("OpenTrunc", "WriteChunk", "WriteTmp", "Rename"):
                tid = live[c]
                want = {"OpenTrunc": ["open-w"], "WriteChunk": ["write"], "WriteTmp": ["open-w", "write", "write", "close"],
                        "Rename": ["replace"]}[act]
                for wname in want:
                    p = w.sched.pending(tid)
                    if p is None or p[0] != wname:
                        break
                    op = w.sched.step(tid)
                    w.log_io(tid, op, concurrent=True)
            elif act == "Crash":
                tid = live[c]
                w.sched.step(tid, crash=True)
            elif act in ("Finish", "Return", "Decide"):
                if act != "Decide":
                    tid = live[c]
                    for op in w.sched.finish(tid):
                        if op:
                            w.log_io(tid, op, concurrent=True)
                    if act == "Return" or w.sched.pending(tid) is None:
                        if not any(e["op"] == "ret" and e["tid"] == tid for e in w.events):
                            w.log_ret(tid, concurrent=True, startfile=startfile.get(tid))
        for c, tid in live.items():
            for op in w.sched.finish(tid):
                if op:
                    w.log_io(tid, op, concurrent=True)
            if not any(e["op"] == "ret" and e["tid"] == tid for e in w.events):
                w.log_ret(tid, concurrent=True, startfile=startfile.get(tid))
    finally:
        w.sched.uninstall()
    return w.events


def state_srv(state, c):
    return "s1"


def run(ctx):
    quick = ctx.tier == "quick"
    schema, types = export_schema.write(ctx)
    mins, _ = dc.mindocs(ctx)
    rnd = random.Random(ctx.seed * 15487469 + 15)
    variant, samekey, ops1, ops2 = detect(ctx, mins)
    ctx.extra["detected_write_protocol"] = variant
    ctx.extra["detected_io_steps_first_write"] = ops1
    ctx.extra["detected_io_steps_rewrite"] = ops2
    ctx.extra["equal_orgfid_different_url_share_cache_file"] = samekey
    ctx.rule = ("M: all states of the protocol instances (2 clients, dt <= 3, 1 crash, <= 3-4 calls) for the detected constants; "
                "T: scenarios on the real code = behaviour sequences x fresh/restarted client, crash after each I/O step + follow-up "
                "calls, interleavings of two writers, client pairs with equal/different ORG/FID/URL; non-trivial = distinct "
                "(scenario kind, behaviour sequence / crash point / interleaving)")
    # ---------------- M: model check the detected instance; G: replay counterexamples
    allevents = []
    instances = [("2 clients, same server", True, True, 3 if quick else 4, SAFETY + ["PROPERTY CacheNeverOlder"]),
                 ("equal ORG/FID, different servers", samekey, False, 3, SAFETY)]
    for title, sk, ss, maxcalls, props in instances:
        remaining = list(props)
        while remaining:
            cfg = PC_CFG % (maxcalls, variant, "TRUE" if sk else "FALSE", "TRUE" if ss else "FALSE", "\n".join(remaining))
            cex_path = os.path.join(ctx.work, "cex-%d.json" % len(ctx.tlc_runs))
            r = ctx.tlc("MC_ProfileCache", cfg, tag="mc-" + ("same" if ss else "pair"), timeout=900, expect_ok=False,
                        extra=["-dumpTrace", "json", cex_path])
            if not r.violated:
                if r.rc != 0:
                    raise MachineryError("TLC failed on MC_ProfileCache:\n" + r.out[-2000:])
                break
            bad = r.violated[0]
            remaining = [p for p in remaining if p.split()[1] != bad]
            with open(cex_path) as f:
                ce = json.load(f)["counterexample"]
            steps = [(tr[1]["name"], tr[1].get("context", {}), tr[2][1]) for tr in ce["action"]]
            ctx.model_findings.append({"instance": title, "property": bad, "schedule": [(a, c) for a, c, _ in steps]})
            name = "cex%d" % len(ctx.model_findings)
            evs = replay_counterexample(ctx, mins, steps, name, sk) if ss else replay_pair(ctx, mins, name)
            for e in evs:
                e["scenario"] = "TLC counterexample to %s (%s): %s" % (bad, title, " ".join("%s(%s)" % (a, ",".join(c.values())) for a, c, _ in steps))
            allevents += evs
    ctx.extra["model_level_counterexamples"] = [{"instance": m["instance"], "property": m["property"],
                                                 "schedule": " ".join("%s(%s)" % (a, ",".join(c.values())) for a, c in m["schedule"])}
                                                for m in ctx.model_findings]
    # ---------------- unbounded: "whole or absent" as an inductive invariant of the write-aside-and-rename protocol
    if variant == "atomic":
        import core

        def rewrite(wd):
            t = open(os.path.join(wd, "APA_ProfileCache.tla")).read()
            t = t.replace('Variant <- "atomic"', 'Variant <- "inplace"').replace("MODULE APA_ProfileCache", "MODULE APA_ProfileCacheInplace")
            open(os.path.join(wd, "APA_ProfileCacheInplace.tla"), "w").write(t)
        core.apalache(ctx, "apalache_inductive_invariant", ["ProfileCache.tla", "APA_ProfileCache.tla"], "APA_ProfileCache",
                      [("base", "APA_ProfileCache", "Init", "IndInv", 0, True), ("step", "APA_ProfileCache", "IndInit", "IndInv", 1, True),
                       ("control-not-inductive-without-TmpIsWhole", "APA_ProfileCache", "WeakInit", "WeakInv", 1, False),
                       ("control-init-not-trivial", "APA_ProfileCache", "IndInit", "Trivial", 0, False),
                       ("control-inplace-protocol-not-inductive", "APA_ProfileCacheInplace", "IndInit", "IndInv", 1, False)], rewrite=rewrite)
    # ---------------- T: direct exploration of the real code
    allevents += explore(ctx, mins, rnd, quick)
    allevents += kill_pass(ctx, mins, quick)
    ctx.evaluations = len(allevents)
    for e in [x for x in allevents if x["op"] == "ret"][:3]:
        ctx.sample({k: e[k] for k in ("scenario", "kind", "ok", "asked", "startfile", "endfile") if k in e})
    mism = ctx.validate_histories("Trace_ProfileCache", allevents)
    byid = {e["id"]: e for e in allevents}
    for eid, clauses in mism.items():
        e = byid[eid]
        for cl in clauses:
            ctx.fail({"clause": cl.split(" ")[0], "detail": cl, "scenario": e.get("scenario", ""), "scenario_kind": e.get("scenario", "").split(":")[0],
                      "concurrent": bool(e.get("concurrent")) or "interleav" in e.get("scenario", "") or "counterexample" in e.get("scenario", ""),
                      "event": {k: v for k, v in e.items() if k not in ("scenario",)},
                      "what": "%s | %s | %s" % (cl, e.get("scenario", ""), {k: e[k] for k in ("step", "file", "kind", "ok", "startfile", "endfile", "exc") if k in e})})
    # a model-level counterexample that the real code does not reproduce means the model is wrong
    for m in ctx.model_findings:
        pass


def kill_pass(ctx, mins, quick):
    """crash points at the real system-call boundary (strace SIGKILL injection): events for Trace_ProfileCache"""
    import hashlib
    import c15_kill as K
    from core import REPO
    if shutil.which("strace") is None:
        ctx.extra["syscall_kill_points"] = "strace not available"
        return []
    url = "https://k.invalid/ofx"
    prof = {dt: ofx_server.profile(mins, url, dtprofup="202001%02d000000.000[+0:UTC]" % dt).encode() for dt in (1, 2, 3)}
    uptodate = ofx_server.profile(mins, url, status="1", with_profrs=False).encode()
    base = os.path.join(ctx.work, "kill")
    os.makedirs(base, exist_ok=True)
    # the system's temporary directory is on ANOTHER file system than the cache whenever this machine has one
    # (a rename across file systems is a copy)
    other = None
    for cand in ("/dev/shm", "/run/shm", "/tmp", "/var/tmp"):
        try:
            if os.path.isdir(cand) and os.access(cand, os.W_OK) and os.stat(cand).st_dev != os.stat(base).st_dev:
                other = os.path.join(cand, "verif-c15-tmp-%d" % os.getpid())
                os.makedirs(other, exist_ok=True)
                break
        except OSError:
            pass
    ctx.extra["kill_pass_tmpdir_on_other_filesystem"] = bool(other)
    oldtmp = os.environ.get("TMPDIR")
    if other:
        os.environ["TMPDIR"] = other
    evs = []
    npoints = 0

    def classify(datadir):
        d = os.path.join(datadir, "ofxtools", "fiprofiles")
        files = [f for f in (os.listdir(d) if os.path.isdir(d) else []) if f.endswith(".profrs")]
        if not files:
            return {"k": "absent", "srv": "", "dt": 0}
        data = open(os.path.join(d, files[0]), "rb").read()
        for dt, b in prof.items():
            if data == b:
                return {"k": "whole", "srv": "s1", "dt": dt}
        return {"k": "corrupt", "srv": "", "dt": len(data)}

    def answer(datadir, which):
        p = os.path.join(base, "answer.bin")
        open(p, "wb").write(which)
        return p
    for pre in (False, True):
        title = "rewrite of a cached profile" if pre else "first download"
        # calibration: the same scenario, untouched, under strace
        cal = os.path.join(base, "cal-%d" % pre)
        shutil.rmtree(cal, ignore_errors=True)
        if pre:
            rc, res = K.run_child(sys.executable, REPO, cal, answer(cal, prof[1]), os.path.join(base, "res.json"))
            if not (res and res["ok"]):
                raise MachineryError("kill pass: preparing the cache failed: %r" % (res,))
        log = os.path.join(base, "cal.log")
        rc, res = K.run_child(sys.executable, REPO, cal, answer(cal, prof[2]), os.path.join(base, "res.json"), strace_args=[], log=log)
        if not (res and res["ok"]) or classify(cal) != {"k": "whole", "srv": "s1", "dt": 2}:
            raise MachineryError("kill pass: calibration run failed: %r %r" % (res, classify(cal)))
        points = K.calibrate(log, os.path.join(cal, "ofxtools", "fiprofiles"))
        DATA = ("write", "pwrite64", "writev", "sendfile", "copy_file_range", "rename", "renameat", "renameat2")
        if not any(n in DATA for n, _, _ in points):
            raise MachineryError("kill pass: no system call that puts data into the cache seen by strace: %r" % (points,))
        if quick:
            keep = [pt for pt in points if pt[0] in DATA]
            firsts = []
            for pt in keep:
                if pt[0] not in [f[0] for f in firsts]:
                    firsts.append(pt)          # the first call of every kind that moves data
            points = firsts + [pt for pt in keep[-1:] if pt not in firsts] + [pt for pt in points if pt[0] in ("openat", "close", "ftruncate")][-1:]
        for name, ordinal, text in points:
            d = os.path.join(base, "run-%d-%s-%d" % (pre, name, ordinal))
            shutil.rmtree(d, ignore_errors=True)
            hid = "kill%d" % npoints
            evs.append({"id": hid + "-env", "op": "env", "keys": ["k1"]})
            start = {"k": "absent", "srv": "", "dt": 0}
            if pre:
                K.run_child(sys.executable, REPO, d, answer(d, prof[1]), os.path.join(base, "res.json"))
                start = classify(d)
                evs.append({"id": hid + "-pre", "op": "io", "tid": "t0", "step": "cache prepared", "key": "k1", "srv": "s1", "file": start})
            klog = os.path.join(base, "kill.log")
            rc, res = K.run_child(sys.executable, REPO, d, answer(d, prof[2]), os.path.join(base, "res.json"),
                                  strace_args=["-e", "inject=%s:signal=SIGKILL:when=%d" % (name, ordinal)], log=klog)
            last = [l for l in open(klog, errors="replace") if K.LINE.match(l)]
            killed = res is None and any("SIGKILL" in l for l in open(klog, errors="replace"))
            where = last[-1].strip()[:140] if last else "?"
            if not killed or ("fiprofiles" not in where and name not in K.FD_CALLS + ("sendfile", "copy_file_range")):
                # the N-th call of this run was not the one calibrated (start-up differed): no verdict from this point
                ctx.extra.setdefault("kill_points_not_reproduced", []).append("%s#%d: %s" % (name, ordinal, where))
                shutil.rmtree(d, ignore_errors=True)
                evs.pop() if not pre else (evs.pop(), evs.pop())
                continue
            step = "SIGKILL entering %s #%d (%s; %s)" % (name, ordinal, title, text.split("(", 1)[0].split()[-1])
            evs.append({"id": hid + "-k", "op": "io", "tid": "t1", "step": step, "key": "k1", "srv": "s1", "file": classify(d)})
            # a restarted client asks again: first "up to date" (when something is cached), then a newer profile
            for j, (kind, ans, sent) in enumerate((("uptodate", uptodate, 0), ("newer", prof[3], 3))):
                before = classify(d)
                if kind == "uptodate" and before["k"] != "whole":
                    continue
                rc, res = K.run_child(sys.executable, REPO, d, answer(d, ans), os.path.join(base, "res.json"))
                after = classify(d)
                ok = bool(res and res["ok"])
                retdt = 0
                if ok:
                    for dt, b in prof.items():
                        if res["ret"].encode() == b:
                            retdt = dt
                asked = 0 if not res or not res["asked"] or res["asked"].startswith("1990") else int(res["asked"][6:8])
                evs.append({"id": "%s-f%d" % (hid, j), "op": "io", "tid": "t2", "step": "restarted client: " + kind, "key": "k1", "srv": "s1",
                            "file": after})
                evs.append({"id": "%s-r%d" % (hid, j), "op": "ret", "tid": "t2", "key": "k1", "srv": "s1", "kind": kind, "asked": asked,
                            "posted": bool(res and res["asked"]), "sentdt": sent, "ok": ok, "prof": {"srv": "s1" if retdt else "", "dt": retdt},
                            "startfile": before, "endfile": after, "concurrent": False, "crashed": False,
                            "exc": (res or {}).get("exc", "no result"), "unchanged": True})
            for e in evs:
                e.setdefault("scenario", "syscall kill: %s" % step)
            ctx.nontrivial.add("syscall kill: %s %s #%d" % (title, name, ordinal))
            npoints += 1
            shutil.rmtree(d, ignore_errors=True)
    ctx.extra["syscall_kill_points"] = npoints
    if other:
        shutil.rmtree(other, ignore_errors=True)
        if oldtmp is None:
            os.environ.pop("TMPDIR", None)
        else:
            os.environ["TMPDIR"] = oldtmp
    return evs


def replay_pair(ctx, mins, name):
    """equal ORG/FID, different servers sharing a cache file: the sequential history of the counterexample"""
    w = World(ctx, mins, name)
    w.sched.install()
    w.events.append({"id": name + "-env", "op": "env", "keys": ["k1", "k2"]})
    try:
        w.run_call("a1", w.client("s1"), "s1", "newer")
        w.run_call("b1", w.client("s2"), "s2", "uptodate")
        w.run_call("b2", w.client("s2"), "s2", "newer")
    finally:
        w.sched.uninstall()
    return w.events


def explore(ctx, mins, rnd, quick):
    out = []
    nscen = [0]

    def scenario(title, body):
        nscen[0] += 1
        name = "x%d" % nscen[0]
        w = World(ctx, mins, name)
        w.sched.install()
        w.events.append({"id": name + "-env", "op": "env", "keys": ["k1", "k2", "k3"]})
        try:
            body(w)
        finally:
            w.sched.uninstall()
        for e in w.events:
            e["scenario"] = title
        out.extend(w.events)
        ctx.nontrivial.add(title)
        shutil.rmtree(w.dir, ignore_errors=True)

    # S1: sequences of server behaviours, fresh client for every call or one client reused
    seqs = list(itertools.product(KINDS, repeat=1)) + list(itertools.product(KINDS, repeat=2))
    if not quick:
        seqs += list(itertools.product(KINDS, repeat=3))
    else:
        seqs += [tuple(rnd.choice(KINDS) for _ in range(3)) for _ in range(40)]
    seqs += [tuple(rnd.choice(KINDS) for _ in range(rnd.randrange(4, 7))) for _ in range(30 if quick else 600)]
    for seq in seqs:
        for reuse in ((False,) if quick and len(seq) > 1 and rnd.random() < 0.5 else (False, True)):
            def body(w, seq=seq, reuse=reuse):
                c = w.client("s1")
                for i, kind in enumerate(seq):
                    if not reuse:
                        c = w.client("s1")
                    w.run_call("t%d" % i, c, "s1", kind)
            scenario("sequence: %s (%s client)" % (",".join(seq), "same" if reuse else "restarted"), body)
    # S2: a crash after each I/O step of a (re)writing call, then further calls
    for first in ("none", "newer"):
        for k in range(0, 9):
            for follow in (("uptodate", "bumpnewer"), ("bumpnewer",), ("newer",)):
                def body(w, first=first, k=k, follow=follow):
                    if first != "none":
                        w.run_call("t0", w.client("s1"), "s1", first)
                    ops = w.run_call("tc", w.client("s1"), "s1", "bumpnewer", crash_after=k)
                    for i, kind in enumerate(follow):
                        w.run_call("f%d" % i, w.client("s1"), "s1", kind)
                scenario("crash: after I/O step %d of a %s, then %s" % (k, "rewrite" if first != "none" else "first write", ",".join(follow)), body)
    # S3: interleavings of two writers' I/O steps (same key, same server; the server has a newer profile for the second)
    def interleave(w, order, pre):
        if pre:
            w.run_call("t0", w.client("s1"), "s1", "newer")
        tids = {"A": "tA", "B": "tB"}
        w.begin("tA", w.client("s1"), "s1", "bumpnewer")
        w.begin("tB", w.client("s1"), "s1", "bumpnewer")
        starts = {}
        for who in order:
            tid = tids[who]
            if w.sched.pending(tid) is None:
                continue
            op = w.sched.step(tid)
            w.log_io(tid, op, concurrent=True)
            if op[0] == "read" and tid not in starts:
                starts[tid] = w.events[-1]["file"]
        for tid in ("tA", "tB"):
            for op in w.sched.finish(tid):
                if op:
                    w.log_io(tid, op, concurrent=True)
        for tid in ("tA", "tB"):
            w.log_ret(tid, concurrent=True, startfile=starts.get(tid))
        w.run_call("after", w.client("s1"), "s1", "uptodate")
    nint = 40 if quick else 700
    for i in range(nint):
        order = "".join(rnd.choice("AB") for _ in range(16))
        pre = rnd.random() < 0.5
        scenario("interleaving: %s (%s)" % (order, "cache present" if pre else "cache absent"),
                 lambda w, order=order, pre=pre: interleave(w, order, pre))
    # S4: pairs of clients with equal / different ORG, FID, URL
    # S5: ONE client object asking two servers (the url argument of request_profile / client.url reassigned)
    for srv2 in ("s2", "s3", "s5"):
        for kinds in (("newer", "uptodate", "uptodate"), ("newer", "newer", "uptodate"), ("bumpnewer", "older", "uptodate")):
            for how in ("argument", "attribute"):
                def body(w, srv2=srv2, kinds=kinds, how=how):
                    c = w.client("s1")
                    w.run_call("a0", c, "s1", kinds[0])
                    if how == "argument":
                        w.run_call("b0", c, srv2, kinds[1], url=w.servers[srv2].url)
                    else:
                        c.url = w.servers[srv2].url
                        w.run_call("b0", c, srv2, kinds[1])
                        c.url = w.servers["s1"].url
                    w.run_call("a1", c, "s1", kinds[2])
                scenario("one client, two servers (%s): then %s: %s" % (how, srv2, ",".join(kinds)), body)
    LO, LF = "O" * 32, "F" * 32       # identifiers at their maximum length
    for orgfid in ((("ORG", "FID"), ("ORG", "FID")), ((None, None), (None, None)), (("ORG", "F1"), ("ORG", "F2")), (("O1", "FID"), ("O2", "FID")),
                   ((LO, LF), (LO, LF)), (("ORG 1 & Co.", "F:1*?"), ("ORG 1 & Co.", "F:1*?"))):
        for srv2 in ("s1", "s2", "s3", "s4", "s5"):
            for kinds in (("newer", "uptodate"), ("newer", "newer", "uptodate"), ("bumpnewer", "older"), ("newer", "error", "uptodate")):
                def body(w, orgfid=orgfid, srv2=srv2, kinds=kinds):
                    a = w.client("s1", org=orgfid[0][0], fid=orgfid[0][1])
                    w.run_call("a0", a, "s1", kinds[0])
                    for i, kind in enumerate(kinds[1:]):
                        b = w.client(srv2, org=orgfid[1][0], fid=orgfid[1][1])
                        w.run_call("b%d" % i, b, srv2, kind)
                    w.run_call("a1", w.client("s1", org=orgfid[0][0], fid=orgfid[0][1]), "s1", "uptodate")
                scenario("pair: ORG/FID %s vs %s, second client on %s: %s" % (orgfid[0], orgfid[1], srv2, ",".join(kinds)), body)
    return out
