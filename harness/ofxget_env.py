"""Runs csingley/ofxtools' ofxget in-process the way a fresh `ofxget ...` command would: the
configuration directories point into a scratch directory, a generated FI database replaces
fi.cfg, the modules are re-imported for every run (so module-level state is rebuilt from the
files on disk, as in a new process), the network and OFX Home are faked at their public seams
(OFXClient.post_request, ofxhome.lookup) and stdout is captured."""
import contextlib
import importlib
import io
import os
import shutil
import sys
import warnings
from pathlib import Path


class Env:
    def __init__(self, root):
        self.root = Path(root)
        shutil.rmtree(self.root, ignore_errors=True)
        (self.root / "lib").mkdir(parents=True)
        (self.root / "cfg").mkdir()
        (self.root / "data").mkdir()
        (self.root / "cache").mkdir()
        os.environ["XDG_CONFIG_HOME"] = str(self.root / "cfg")
        os.environ["XDG_DATA_HOME"] = str(self.root / "data")
        os.environ["XDG_CACHE_HOME"] = str(self.root / "cache")
        self.posts = []
        self.responder = None
        self.ofxhome = {}
        self.debug_logging = False    # True: as with -vv (the ofxtools loggers at DEBUG, into a null handler)
        self.ofxhome_wire = False     # True: the real ofxhome.lookup runs against a fake OFX Home answering XML records

    @property
    def usercfg_path(self):
        return self.root / "cfg" / "ofxtools" / "ofxget.cfg"

    def write_fidb(self, text):
        (self.root / "lib" / "fi.cfg").write_text(text)

    def write_usercfg(self, text):
        self.usercfg_path.parent.mkdir(parents=True, exist_ok=True)
        self.usercfg_path.write_text(text)

    def read_usercfg(self):
        return self.usercfg_path.read_text() if self.usercfg_path.exists() else ""

    def fresh(self):
        """re-import config + ofxget as a new process would"""
        import ofxtools.config as config
        importlib.reload(config)
        config.CONFIGDIR = self.root / "lib"
        import ofxtools.Client as Client
        importlib.reload(Client)      # DATADIR users read config.DATADIR at call time; reload keeps it honest
        import ofxtools.scripts.ofxget as ofxget
        importlib.reload(ofxget)
        env = self

        def post_request(client, url, data, timeout):
            env.posts.append({"url": url, "body": data, "client": id(client)})
            if env.responder is None:
                raise RuntimeError("no network in this run")
            return env.responder(url, data)
        Client.OFXClient.post_request = post_request
        ofxget.OFXClient = Client.OFXClient

        def lookup(id_, *a, **k):
            return env.ofxhome.get(str(id_))
        import ofxtools.ofxhome as ofxhome
        if env.ofxhome_wire:
            importlib.reload(ofxhome)
            import types
            import urllib.error
            import urllib.parse
            from xml.sax import saxutils

            class _Resp(io.BytesIO):
                def __enter__(self):
                    return self

                def __exit__(self, *a):
                    return False

            def urlopen(query, *a, **k):
                q = urllib.parse.parse_qs(urllib.parse.urlparse(query).query)
                rec = env.ofxhome.get((q.get("lookup") or [""])[0])
                if rec is None:
                    raise urllib.error.URLError("no such institution")
                # OFX Home is known not to escape '&' in <fid>: a FID holding a bare '&' is served raw (the other elements
                # are escaped as XML requires)
                def wire(f):
                    v = getattr(rec, f)
                    if f == "fid" and ("& " in v or v.endswith("&")) and "<" not in v:
                        return v
                    return saxutils.escape(v)
                fields = "".join("<%s>%s</%s>" % (f, wire(f), f) for f in ("fid", "org", "url", "brokerid")
                                 if getattr(rec, f, None) is not None)
                xml = ('<institution id="%s"><name>Fake &amp; Sons</name>%s<ofxfail>0</ofxfail><sslfail>0</sslfail>'
                       '<lastofxvalidation>2019-04-29 23:08:45</lastofxvalidation><lastsslvalidation>2019-04-29 23:08:44</lastsslvalidation>'
                       '<profile finame="Fake" addr1="1 St" bankmsgset="true" signonmsgset="true"/></institution>'
                       % ((q.get("lookup") or [""])[0], fields))
                return _Resp(xml.encode())
            ofxhome.urllib = types.SimpleNamespace(request=types.SimpleNamespace(urlopen=urlopen), error=urllib.error, parse=urllib.parse)
        else:
            ofxhome.lookup = lookup
        ofxget.ofxhome = ofxhome
        return ofxget

    def run(self, argv, merge_only=False):
        """-> dict(ok, exc, stdout, args (effective mapping), posts)"""
        self.posts = []
        out = io.StringIO()
        res = {"ok": False, "exc": "", "stdout": "", "args": {}, "posts": []}
        import logging
        lg = logging.getLogger("ofxtools")
        if self.debug_logging:
            logging.disable(logging.NOTSET)
            lg.setLevel(logging.DEBUG)
            lg.propagate = False
            if not any(isinstance(h, logging.NullHandler) for h in lg.handlers):
                lg.addHandler(logging.NullHandler())
        else:
            logging.disable(logging.CRITICAL)
        with warnings.catch_warnings():
            warnings.simplefilter("ignore")
            try:
                ofxget = self.fresh()
                with contextlib.redirect_stdout(out):
                    ns = ofxget.make_argparser().parse_args(argv)
                    args = ofxget.merge_config(ns, ofxget.USERCFG)
                    res["args"] = {k: args[k] for k in ofxget.DEFAULTS if k in args}
                    if not merge_only:
                        ofxget.REQUEST_HANDLERS[args["request"]](args)
                res["ok"] = True
            except SystemExit as e:
                res["exc"] = "SystemExit"
            except Exception as e:
                res["exc"] = type(e).__name__ + ": " + str(e)[:150]
        res["stdout"] = out.getvalue()
        res["posts"] = list(self.posts)
        return res
