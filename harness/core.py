"""Core of the verification harness: TLC runner, trace validation, evidence,
known findings, replay files.  Python does bookkeeping only; every verdict about
OFX behaviour is computed by TLC from the modules under /verif/spec.
"""
import concurrent.futures
import hashlib
import json
import os
import re
import shutil
import subprocess
import sys
import time

VERIF = os.path.dirname(os.path.dirname(os.path.abspath(__file__)))
SPEC = os.path.join(VERIF, "spec")
REPO = os.environ.get("VERIF_REPO", "/repo")
# evidence and replay files describe /repo itself; a run against a scratch copy (VERIF_REPO) writes them aside
OUTDIR = VERIF if REPO == "/repo" else os.path.join(VERIF, ".work", "scratch-" + os.path.basename(REPO.rstrip("/")))
JAR = "/opt/veriftools/tla/tla2tools.jar:/opt/veriftools/tla/CommunityModules-deps.jar"
NCPU = os.cpu_count() or 4


def apalache(ctx, key, files, module, runs, rewrite=None):
    """Unbounded obligations discharged by Apalache (symbolic).  runs: (name, init, inv, length, want_ok).  The outcome of
    every run goes into the evidence; an obligation that comes out the WRONG way is a machinery failure; a tool that is
    missing or dies is recorded and does not decide anything (TLC remains the decision procedure)."""
    import shutil
    import subprocess
    import time
    res = {}
    ctx.extra[key] = res
    if shutil.which("apalache-mc") is None:
        res["status"] = "apalache-mc not found: skipped"
        return res
    wd = os.path.join(ctx.work, "apalache-" + key)
    os.makedirs(wd, exist_ok=True)
    for f in files:
        shutil.copy(os.path.join(VERIF, "spec", f), wd)
    if rewrite:
        rewrite(wd)
    for name, mod, init, inv, length, want_ok in runs:
        t0 = time.time()
        try:
            p = subprocess.run(["apalache-mc", "check", "--init=" + init, "--inv=" + inv, "--length=%d" % length,
                                "--out-dir=" + os.path.join(wd, "out"), mod + ".tla"], cwd=wd, capture_output=True, text=True, timeout=1200)
            out = p.stdout + p.stderr
            outcome = "NoError" if "The outcome is: NoError" in out else "Error" if "The outcome is: Error" in out else "abnormal rc=%d" % p.returncode
        except subprocess.TimeoutExpired:
            outcome = "timeout"
        res[name] = {"module": mod, "init": init, "inv": inv, "length": length, "expected": "NoError" if want_ok else "Error",
                     "outcome": outcome, "wall_s": round(time.time() - t0, 1)}
        if outcome in ("NoError", "Error") and (outcome == "NoError") != want_ok:
            raise MachineryError("Apalache %s/%s: expected %s, got %s" % (key, name, "NoError" if want_ok else "Error", outcome))
    res["status"] = "proved" if all(v["outcome"] in ("NoError", "Error") for k, v in res.items() if isinstance(v, dict)) else "incomplete (see outcomes)"
    return res


class MachineryError(Exception):
    """TLC/SANY error, harness exception, unmodelled shape: exit code 2."""


class TLCResult:
    def __init__(self, out, rc, wall):
        self.out = out
        self.rc = rc
        self.wall = wall
        m = re.findall(r"(\d+) states generated, (\d+) distinct states found", out)
        self.generated = int(m[-1][0]) if m else 0
        self.distinct = int(m[-1][1]) if m else 0
        m = re.search(r"The depth of the complete state graph search is (\d+)", out)
        self.depth = int(m.group(1)) if m else 0
        self.violated = re.findall(r"Error: Invariant (\S+) is violated", out)
        self.violated += re.findall(r"Error: Action property (\S+) is violated", out)
        if "Temporal properties were violated" in out:
            self.violated.append("<temporal>")
        self.assumption_failed = "Assumption" in out and "is false" in out
        self.errors = [l for l in out.splitlines() if l.startswith("Error:")]
        self.finished = "Model checking completed" in out or "Finished in" in out or \
            "Finished computing" in out

    def printed(self, prefix):
        """Lines printed by PrintT("<prefix> ...") (TLA+ quoted strings), unquoted."""
        res = []
        tag = '"' + prefix + " "
        for line in self.out.splitlines():
            if line.startswith(tag) and line.endswith('"'):
                try:
                    res.append(json.loads(line)[len(prefix) + 1:])
                except ValueError:
                    res.append(line[len(tag):-1].replace('\\"', '"').replace("\\\\", "\\"))
        return res

    def printed_json(self, prefix):
        return [json.loads(s) for s in self.printed(prefix)]


class Ctx:
    def __init__(self, prop, tier, seed):
        self.prop = prop
        self.tier = tier
        self.seed = seed
        self.t0 = time.time()
        self.work = os.path.join(VERIF, ".work", "%s-%d" % (prop, os.getpid()))
        shutil.rmtree(self.work, ignore_errors=True)
        os.makedirs(self.work)
        for f in os.listdir(SPEC):
            if f.endswith(".tla") or f.endswith(".cfg"):
                os.symlink(os.path.join(SPEC, f), os.path.join(self.work, f))
        self.states = 0
        self.transitions = 0
        self.tlc_runs = []
        self.evaluations = 0
        self.traces_validated = 0
        self.nontrivial = set()
        self.samples = []
        self.failures = []      # list of dicts: failing cases (candidate violations)
        self.extra = {}
        self.assumptions = []
        self.exhaustive = None
        self.rule = ""
        self.model_findings = []
        self.unjudged = 0

    # ---------------------------------------------------------------- TLC
    def write(self, name, text):
        p = os.path.join(self.work, name)
        if os.path.islink(p):
            os.unlink(p)
        with open(p, "w") as f:
            f.write(text)
        return p

    def tlc(self, module, cfg=None, workers=None, env=None, simulate=None, depth=None,
            timeout=900, deadlock=False, tag=None, coverage=False, expect_ok=True,
            dfs=False, seed=None, extra=None):
        """Run TLC on spec `module` (in the work dir) with config text/file."""
        tag = tag or module
        cfgname = module + ".cfg"
        if cfg is not None and "\n" in cfg:
            cfgname = tag + ".gen.cfg"
            self.write(cfgname, cfg)
        elif cfg is not None:
            cfgname = cfg
        self._uniq = getattr(self, "_uniq", 0) + 1
        meta = os.path.join(self.work, "meta-" + tag + "-" + str(self._uniq))
        nw = workers or NCPU
        # several JVMs run side by side (sharded trace validation): keep each one's footprint bounded
        cmd = ["java", "-Xss16m"] + (["-XX:+UseSerialGC", "-Xmx1500m"] if nw == 1 else ["-XX:+UseParallelGC", "-Xmx8g"])
        if dfs:
            cmd.append("-Dtlc2.tool.queue.IStateQueue=StateDeque")
        # the JVM's own scratch (SANY*, tlc-* directories) goes to the work directory, which is removed, not to /tmp
        jtmp = os.path.join(self.work, "jtmp")
        os.makedirs(jtmp, exist_ok=True)
        cmd.append("-Djava.io.tmpdir=" + jtmp)
        cmd += ["-cp", JAR, "tlc2.TLC", "-metadir", meta, "-noGenerateSpecTE",
                "-config", cfgname, "-workers", str(workers or NCPU)]
        if not deadlock:
            cmd.append("-deadlock")
        if coverage:
            cmd += ["-coverage", "1"]
        if simulate is not None:
            cmd += ["-simulate", simulate]
            if depth:
                cmd += ["-depth", str(depth)]
        if simulate is not None or seed is not None:
            cmd += ["-seed", str(self.seed if seed is None else seed)]
        if extra:
            cmd += list(extra)
        cmd.append(module)
        e = dict(os.environ)
        e.pop("JAVA_TOOL_OPTIONS", None)
        if env:
            e.update({k: str(v) for k, v in env.items()})
        t = time.time()
        try:
            p = subprocess.run(cmd, cwd=self.work, env=e, stdout=subprocess.PIPE,
                               stderr=subprocess.STDOUT, timeout=timeout, text=True,
                               errors="replace")
            out, rc = p.stdout, p.returncode
        except subprocess.TimeoutExpired as ex:
            out = (ex.stdout or b"")
            out = out.decode("utf8", "replace") if isinstance(out, bytes) else out
            out += "\nTIMEOUT\n"
            rc = 124
        shutil.rmtree(meta, ignore_errors=True)
        r = TLCResult(out, rc, time.time() - t)
        self.states += r.distinct
        self.transitions += r.generated
        self.tlc_runs.append({"module": module, "tag": tag, "distinct": r.distinct,
                              "generated": r.generated, "depth": r.depth,
                              "wall_s": round(r.wall, 2), "rc": rc,
                              "violated": r.violated})
        with open(os.path.join(self.work, "tlc-%s-%d.out" % (tag, len(self.tlc_runs))), "w") as f:
            f.write(out)
        if expect_ok:
            bad = rc not in (0,) and not r.violated
            if rc == 124 and simulate is None:
                bad = True
            if bad or "Parsing or semantic analysis failed" in out or \
                    "java.lang." in out and "Exception" in out and not r.violated:
                raise MachineryError("TLC failed on %s (rc=%s):\n%s" % (tag, rc, out[-3000:]))
        return r

    # ---------------------------------------------------- trace validation
    def validate_trace(self, module, events, shards=None, timeout=900, env=None, cfg=None):
        """Validate `events` (list of JSON-able dicts, each with an "id") with the
        trace spec `module`.  Returns dict id -> list of mismatch clauses.
        The trace spec prints  MISMATCH <id> <clause...>  per rejected event and
        ACCEPTED <n> at the end (POSTCONDITION)."""
        if not events:
            return {}
        n = len(events)
        shards = shards or max(1, min(NCPU, n // 400 + 1))
        per = (n + shards - 1) // shards
        files = []
        for s in range(shards):
            chunk = events[s * per:(s + 1) * per]
            if not chunk:
                continue
            self._uniq = getattr(self, "_uniq", 0) + 1
            p = os.path.join(self.work, "trace-%s-%d-%d-%d.ndjson" % (module, len(self.tlc_runs), self._uniq, s))
            with open(p, "w") as f:
                for e in chunk:
                    f.write(json.dumps(e, ensure_ascii=True, separators=(",", ":")) + "\n")
            files.append((p, len(chunk)))
        mism = {}

        def one(arg):
            p, cnt = arg
            e2 = {"TRACE_FILE": p}
            if env:
                e2.update(env)
            r = self.tlc(module, cfg=cfg, workers=1, env=e2, timeout=timeout,
                         tag=module + "-" + os.path.basename(p))
            return r, cnt

        with concurrent.futures.ThreadPoolExecutor(max_workers=NCPU) as ex:
            results = list(ex.map(one, files))
        for r, cnt in results:
            acc = r.printed("CONSUMED")
            if not acc or int(acc[-1].split()[0]) != cnt:
                raise MachineryError("trace spec %s did not consume its trace (%s of %d):\n%s"
                                     % (module, acc, cnt, r.out[-3000:]))
            self.unjudged += len(r.printed("UNJUDGED"))
            for line in r.printed("MISMATCH"):
                eid, _, clause = line.partition(" ")
                mism.setdefault(eid, []).append(clause)
        self.traces_validated += n
        if os.environ.get("VERIF_CORRUPT") and not getattr(self, "_in_corrupt", False):
            self._in_corrupt = True
            try:
                self._corruption_selftest(module, events, mism, timeout, env, cfg)
            finally:
                self._in_corrupt = False
        return mism

    # ------------------------------------------------- binding self-test (./selftest)
    OBS_FIELDS = ("out", "back", "eff", "posts", "file", "after", "afteruid", "o", "iafter", "prof", "endfile", "hasattr", "default", "pw", "leg", "store", "skip")

    def _corruption_selftest(self, module, events, mism, timeout, env, cfg):
        """corrupt ONE recorded observation in each of a sample of accepted events and expect the trace spec
        to reject it: demonstrates that the specification is bound to what the code returned"""
        import copy
        import random as _r
        rnd = _r.Random(12345)
        good = [e for e in events if e.get("id") not in mism and e.get("op") != "env" and any(f in e for f in self.OBS_FIELDS)]
        stateful = any(e.get("op") == "env" for e in events)
        if stateful or not good:
            # stateful traces: corrupt one event per history would need the history; sample whole histories instead
            return
        sample = rnd.sample(good, min(40, len(good)))
        corrupted = []
        for e in sample:
            c = copy.deepcopy(e)
            fields = [f for f in self.OBS_FIELDS if f in c]
            f = rnd.choice(fields)
            c[f], how = _mutate(c[f], rnd)
            if how is None:
                continue
            c["id"] = "corrupt-" + str(e["id"])
            corrupted.append(c)
        before = (self.traces_validated, self.unjudged, self.states, self.transitions)
        m2 = self.validate_trace(module, corrupted, shards=1, timeout=timeout, env=env, cfg=cfg)
        self.traces_validated, self.unjudged, self.states, self.transitions = before
        rec = self.extra.setdefault("binding_selftest", {})
        r = rec.setdefault(module, {"corrupted": 0, "rejected": 0})
        r["corrupted"] += len(corrupted)
        r["rejected"] += len(m2)
        print("SELFTEST %s: %d of %d corrupted observations rejected by the trace specification" % (module, len(m2), len(corrupted)))

    def validate_histories(self, module, events, groups=None, **kw):
        """Stateful trace specs: the log is a sequence of histories, each starting with an "env" event.
        Histories are independent, so they are distributed over several TLC runs (never split)."""
        hists = []
        for e in events:
            if e.get("op") == "env" or not hists:
                hists.append([])
            hists[-1].append(e)
        groups = groups or max(1, min(NCPU, len(hists) // 8 + 1))
        buckets = [[] for _ in range(groups)]
        for i, h in enumerate(hists):
            buckets[i % groups].extend(h)
        mism = {}
        with concurrent.futures.ThreadPoolExecutor(max_workers=groups) as ex:
            for m in ex.map(lambda b: self.validate_trace(module, b, shards=1, **kw) if b else {}, buckets):
                mism.update(m)
        if os.environ.get("VERIF_CORRUPT") and not getattr(self, "_in_corrupt", False):
            self._in_corrupt = True
            try:
                import copy
                import random as _r
                rnd = _r.Random(54321)
                clean = [h for h in hists if not any(e.get("id") in mism for e in h) and len(h) > 1]
                log, nc = [], 0
                for hi, h in enumerate(rnd.sample(clean, min(25, len(clean)))):
                    h2 = copy.deepcopy(h)
                    cands = [e for e in h2[1:] if any(f in e for f in self.OBS_FIELDS)]
                    if not cands:
                        continue
                    e = rnd.choice(cands)
                    f = rnd.choice([f for f in self.OBS_FIELDS if f in e])
                    e[f], how = _mutate(e[f], rnd)
                    if how is None:
                        continue
                    for x in h2:
                        x["id"] = "corrupt%d-%s" % (hi, x.get("id"))
                    log += h2
                    nc += 1
                before = (self.traces_validated, self.unjudged, self.states, self.transitions)
                m2 = self.validate_trace(module, log, shards=1, **kw) if log else {}
                self.traces_validated, self.unjudged, self.states, self.transitions = before
                rejected = len({k.split("-")[0] for k in m2})
                r = self.extra.setdefault("binding_selftest", {}).setdefault(module, {"corrupted": 0, "rejected": 0})
                r["corrupted"] += nc
                r["rejected"] += rejected
                print("SELFTEST %s: %d of %d histories with one corrupted observation rejected" % (module, rejected, nc))
            finally:
                self._in_corrupt = False
        return mism

    # ------------------------------------------------------------ bookkeeping
    def sample(self, s, limit=6):
        if len(self.samples) < limit:
            self.samples.append(s)

    def fail(self, case):
        """Register a failing case (dict with at least 'what'); decided at finish()."""
        self.failures.append(case)

    # ---------------------------------------------------------------- finish
    def finish(self, level="model_checking"):
        known = load_known()
        kf_hits = {}
        viol = []
        for case in self.failures:
            k = match_known(known, self.prop, case)
            if k is not None:
                kf_hits.setdefault(k["id"], [k, 0])[1] += 1
            else:
                viol.append(case)
        for kid, (k, cnt) in sorted(kf_hits.items()):
            print("KNOWN-FINDING: property=%s %s [%s, %d case(s)]" % (self.prop, k["description"], kid, cnt))
        if os.environ.get("VERIF_DUMP"):
            with open(os.environ["VERIF_DUMP"], "w") as f:
                for case in self.failures:
                    f.write(json.dumps(case, default=str) + "\n")
        rc = 0
        replay_paths = []
        seen = set()
        for case in viol:
            key = case.get("class_key") or json.dumps(case, sort_keys=True, default=str)
            h = hashlib.sha1(key.encode()).hexdigest()[:12]
            if h in seen:
                continue
            seen.add(h)
            if len(seen) > 25:
                continue
            d = os.path.join(OUTDIR, "replays", self.prop)
            os.makedirs(d, exist_ok=True)
            p = os.path.join(d, h + ".json")
            with open(p, "w") as f:
                json.dump({"property": self.prop, "tier": self.tier, "seed": self.seed, "case": case,
                           "replay_cmd": "./check %s --replay %s" % (self.prop, p)}, f,
                          indent=1, default=str, ensure_ascii=True)
            replay_paths.append(p)
            print("VIOLATION property=%s replay=%s" % (self.prop, p))
            print("  what: %s" % str(case.get("what"))[:400])
            rc = 1
        cov = {
            "states": max(self.states, 0),
            "transitions": max(self.transitions, 0),
            "traces_validated_against_impl": self.traces_validated,
            "samples": self.samples or ["(none)"],
            "evaluations": self.evaluations,
            "distinct_nontrivial": len(self.nontrivial),
            "rule": self.rule,
            "tlc_runs": self.tlc_runs[:40],
            "known_finding_hits": {k: v[1] for k, v in kf_hits.items()},
            "failing_cases": len(self.failures),
            "events_left_unjudged_by_spec": self.unjudged,
        }
        if self.exhaustive is not None:
            cov["exhaustive"] = self.exhaustive
        cov.update(self.extra)
        ev = {
            "property_id": self.prop,
            "tier": self.tier,
            "seed": self.seed,
            "level": level,
            "coverage": cov,
            "assumptions": self.assumptions,
            "wall_s": round(time.time() - self.t0, 2),
            "violations": len(seen),
        }
        os.makedirs(os.path.join(OUTDIR, "evidence"), exist_ok=True)
        with open(os.path.join(OUTDIR, "evidence", self.prop + ".json"), "w") as f:
            json.dump(ev, f, indent=1, default=str, ensure_ascii=True)
        print("%s tier=%s seed=%d states=%d transitions=%d evaluations=%d nontrivial=%d "
              "traces=%d failing=%d known=%d violations=%d wall=%.1fs" %
              (self.prop, self.tier, self.seed, self.states, self.transitions, self.evaluations,
               len(self.nontrivial), self.traces_validated, len(self.failures),
               sum(v[1] for v in kf_hits.values()), len(seen), time.time() - self.t0))
        if not os.environ.get("VERIF_KEEP"):
            shutil.rmtree(self.work, ignore_errors=True)
        return rc


def _mutate(v, rnd):
    """change one leaf of a recorded observation; returns (new value, description or None)"""
    if isinstance(v, bool):
        return (not v), "flip"
    if isinstance(v, int):
        return v + 1, "+1"
    if isinstance(v, str):
        return v + "x", "append"
    if isinstance(v, list):
        if v and all(isinstance(x, int) and not isinstance(x, bool) for x in v):
            return v + [120], "append code point"
        if not v:
            return v, None
        idxs = list(range(len(v)))
        rnd.shuffle(idxs)
        for i in idxs:
            nv, how = _mutate(v[i], rnd)
            if how is not None:
                return v[:i] + [nv] + v[i + 1:], how
        return v, None
    if isinstance(v, dict):
        keys = [k for k in v if k not in ("exc",)]
        rnd.shuffle(keys)
        for k in keys:
            nv, how = _mutate(v[k], rnd)
            if how is not None:
                return dict(v, **{k: nv}), how
        return v, None
    return v, None


# ------------------------------------------------------------- known findings
def load_known():
    p = os.path.join(VERIF, "KNOWN_FINDINGS.json")
    if not os.path.exists(p):
        return []
    with open(p) as f:
        return json.load(f).get("findings", [])


def match_known(known, prop, case):
    for k in known:
        if k["property"] != prop:
            continue
        ok = True
        for field, want in k["signature"].items():
            got = case.get(field)
            if isinstance(want, dict) and "re" in want:
                if got is None or not re.search(want["re"], str(got)):
                    ok = False
            elif isinstance(want, dict) and "in" in want:
                if got not in want["in"]:
                    ok = False
            elif got != want:
                ok = False
            if not ok:
                break
        if ok:
            return k
    return None


# ------------------------------------------------------------------ helpers
def cps(s):
    """str -> list of code points (TLA+ text representation)."""
    return [ord(c) for c in s]


def uncps(l):
    return "".join(chr(c) for c in l)


def tla_str(s):
    return '"' + s.replace("\\", "\\\\").replace('"', '\\"') + '"'


def tla_seq(items):
    return "<<" + ", ".join(items) + ">>"


def tla_set(items):
    return "{" + ", ".join(items) + "}"


def tla_cps(s):
    return tla_seq(str(ord(c)) for c in s)


def import_repo():
    """Make `import ofxtools` resolve to the tree under test."""
    if REPO not in sys.path:
        sys.path.insert(0, REPO)
    import ofxtools  # noqa
    got = os.path.dirname(os.path.dirname(os.path.abspath(ofxtools.__file__)))
    if os.path.realpath(got) != os.path.realpath(REPO):
        raise MachineryError("ofxtools imported from %s, expected %s" % (got, REPO))
    return ofxtools
