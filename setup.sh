#!/bin/sh
# Offline setup: verify the tools and parse every specification module that needs no generated data.
set -e
cd "$(dirname "$0")"
java -version 2>&1 | head -1
test -f /opt/veriftools/tla/tla2tools.jar
/venv/bin/python -c "import hypothesis; print('hypothesis', hypothesis.__version__)"
mkdir -p .work evidence replays
cd spec
for f in OFXText OFXTypes MC_Types TraceBase SecIds MC_SecIds OFXHeader MC_Header OFXSyntax MC_Syntax OFXNet OFXGetConfig MC_GetConfig ProfileCache MC_ProfileCache Purity Trace_Types Trace_Header Trace_Syntax OFXSecret MC_Secret OFXHome MC_Home OFXTreeLife MC_TreeLife; do
  java -cp /opt/veriftools/tla/tla2tools.jar:/opt/veriftools/tla/CommunityModules-deps.jar tla2sany.SANY "$f.tla" > ../.work/sany-$f.log 2>&1 || { cat ../.work/sany-$f.log; exit 1; }
done
echo setup ok
